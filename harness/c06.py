"""C06 — any input yields service, a well-formed error response, or a clean close.

Correspondence of PxModel/FirstRequest.lean (+ Parser/Build/Responses/WfResponse) with the real
HttpProtocolHandler driven in-process (harness/sim.py), the real response builders, and the
property oracle: what the client would read is nothing (waiting), or one response accepted by the
independent parser h11 with a body consistent with its framing, followed by teardown."""
import os
import gzip
import json
import errno
import tempfile
import signal
import socket
import logging
import selectors

from harness import httpgen as G
from harness.common import hx, exc_name

PROPERTY = 'C06'
LEAN_TARGETS = ['PxProofs.C06']
THEOREMS = [
    'Px.First.C06_total', 'Px.First.C06_exclusive', 'Px.First.C06_trace', 'Px.First.C06_reject_stops_reading',
    'Px.First.C06_crash_escapes', 'Px.First.C06_empty_method_rejected', 'Px.First.C06_web_bad_path_rejected', 'Px.ParseFuel.C06_parse_fuel', 'Px.ParseFuel.C06_former_hangs_terminate',
    'Px.Wf.C06_canned', 'Px.Wf.C06_canned_built', 'Px.Wf.C06_builders', 'Px.Wf.C06_builders_ok',
    'Px.Wf.C06_builders_redirect', 'Px.Wf.C06_builders_rejected', 'Px.Wf.C06_builders_ws',
    'Px.Wf.C06_builder_injection_witness', 'Px.Wf.C06_ws_handshake_cl_witness',
]
RULE = ('run: a client byte string (HTTP grammar + repeated httpgen.mutate; random bytes; oversized / non-numeric / '
        'negative / repeated lengths; unknown schemes, methods, versions; non-UTF-8; the two former hang inputs; '
        'follow-up bytes after a served request) under a segmentation, through the real HttpProtocolHandler (default '
        'flags, --enable-web-server, or web + static file server, each also with --enable-proxy-protocol and PROXY v1 '
        'lines (valid, spec-valid but over the 57-byte limit, malformed, v2 signature); patched connect that succeeds or fails); per segment: outcome class, client buffer, handle_data result, must-flush, teardown, '
        'read interest vs the model.  flush: 1-5 pipelined web-server route requests / 404 / static file / 400 in one '
        'or more segments, then write-ready ticks whose send() accepts 1 / len-1 / k / all bytes or would block: the '
        'byte stream the client receives vs the concatenation of the queued packets.  build/wf: argument tuples of the response builders vs the Build/Responses models, '
        'and WF_response vs h11 on canned, built and damaged responses.  distinct by canonical JSON; non-trivial = run '
        'case that reaches a reject or served outcome, or an in-guard builder case')
ASSUMPTIONS = [
    'plugins are abstract in the model: what on_request_complete / on_client_data of the selected real plugin did '
    '(queued, returned / raised HttpProtocolException with its response / other exception) is recorded from the real '
    'run and handed to the model as its plugin parameter',
    'only the client descriptor is reported ready (R=[client], W=[]): plugin descriptor hooks are not triggered',
    'gzip.compress is opaque in the model; the harness pins mtime=0 so that the same bytes reach model and builder',
    'TLS-wrapped client connections are not modelled; --enable-proxy-protocol is (PxModel/ProxyProtocol.lean)',
    'plugin contract for C06_total: hooks raise only HttpProtocolException subclasses (the crash case is C06_crash_escapes)',
]
EXHAUSTIVE = {}
EXPLANATION = ('Lean: decision table of handle_data in the first-request phase for every state, plugin configuration and '
               'byte string (C06_total), shape of every run over all segment lists and "no byte is read after a reject" '
               '(C06_trace, C06_reject_stops_reading), the parser loop never ends by fuel from any reachable state '
               '(C06_parse_fuel), every canned packet is well formed per an RFC 7230 checker (kernel-evaluated on the '
               'generated literals) and build_http_response / okResponse / redirects / HttpRequestRejected / websocket '
               'handshake are well formed for all arguments inside SafeArgs (C06_builders*); outside the guard a witness '
               'is reported.  Python: the models are compared with the real handler and builders on the cases counted '
               'here; the oracle judges the implementation alone with h11.')

HANG_CPU_S = 6       # an endless loop burns CPU: decisive, and robust against a loaded machine
HANG_WALL_S = 50     # wall-clock guard (below the engine's per-case limit)


class Hang(BaseException):
    """not an Exception: `except Exception` inside the implementation must not swallow the guard"""


def _on_prof(signum, frame):
    raise Hang('cpu')


def _on_alarm(signum, frame):
    raise Hang('wall')


def guarded(fn, *a, cpu=None):
    """Run fn; a run that does not come back is the result 'hang'.  The CPU-time limit is decisive;
    when only the wall clock expired although the process got almost no CPU (starved by other jobs
    on the machine) the attempt is repeated before it is called a hang."""
    import time
    for attempt in range(3):
        old_a = signal.signal(signal.SIGALRM, _on_alarm)
        old_p = signal.signal(signal.SIGPROF, _on_prof)
        t0 = time.process_time()
        signal.setitimer(signal.ITIMER_REAL, HANG_WALL_S)
        signal.setitimer(signal.ITIMER_PROF, cpu or HANG_CPU_S)
        try:
            return fn(*a)
        except Hang as e:
            if e.args == ('wall',) and time.process_time() - t0 < HANG_CPU_S / 2 and attempt < 2:
                continue
            return 'hang'
        finally:
            signal.setitimer(signal.ITIMER_PROF, 0)
            signal.setitimer(signal.ITIMER_REAL, 0)
            signal.signal(signal.SIGPROF, old_p)
            signal.signal(signal.SIGALRM, old_a)
    return 'hang'


# --------------------------------------------------------------------------------------------
# driving the real handler
# --------------------------------------------------------------------------------------------

PLANS = {
    'ok': None,
    'refuse': lambda: ConnectionRefusedError(errno.ECONNREFUSED, 'scripted refusal'),
    'gaierror': lambda: socket.gaierror(socket.EAI_NONAME, 'scripted unknown host'),
    'timeout': lambda: TimeoutError(errno.ETIMEDOUT, 'scripted timeout'),
}


def bl(items):
    return '.' if not items else ';'.join(hx(x) for x in items)


def _buf(h):
    return [bytes(x) for x in h.work.buffer]


class Rec:
    """what the hooks of the selected real plugin did"""

    def __init__(self):
        self.oc = None          # token for on_request_complete
        self.cds = []           # tokens for on_client_data, in call order
        self.last = None        # (hook, pid, kind, td, hq-relevant response)
        self.parse_exc = None
        self.pname = None
        self.events = []        # hooks run during the current segment, in order


def _wrap(h, rec, flags):
    from proxy.http.exception import HttpProtocolException
    klasses = flags.plugins.get(b'HttpProtocolHandlerPlugin', [])

    real_parse = h.request.parse

    def parse(data, *a, **kw):
        try:
            return real_parse(data, *a, **kw)
        except Exception as e:
            rec.parse_exc = {'NotImplementedError': 'notImplemented'}.get(type(e).__name__, exc_name(e))
            raise
    h.request.parse = parse

    real_init = h._initialize_plugin

    def init(klass):
        plugin = real_init(klass)
        pid = klasses.index(klass)
        rec.pname = klass.__name__

        def hook(name, real):
            def run(*a):
                n0 = len(h.work.buffer)
                try:
                    out = real(*a)
                except HttpProtocolException as e:
                    q = _buf(h)[n0:]
                    r = e.response(h.request)
                    r = None if r is None else bytes(r)
                    tok = 'raise:%s:%s' % (hx(r), bl(q))
                    rec.last = (name, pid, 'raise', None, r)
                    rec.events.append(rec.last)
                    (rec.cds.append(tok) if name == 'cd' else setattr(rec, 'oc', tok))
                    raise
                except Exception:
                    q = _buf(h)[n0:]
                    tok = 'crash:%s' % bl(q)
                    rec.last = (name, pid, 'crash', None, None)
                    rec.events.append(rec.last)
                    (rec.cds.append(tok) if name == 'cd' else setattr(rec, 'oc', tok))
                    raise
                q = _buf(h)[n0:]
                td = 1 if (isinstance(out, bool) and out and name == 'oc') else 0
                tok = 'ret:%d:%s' % (td, bl(q))
                rec.last = (name, pid, 'ret', td, None)
                rec.events.append(rec.last)
                (rec.cds.append(tok) if name == 'cd' else setattr(rec, 'oc', tok))
                return out
            return run
        plugin.on_request_complete = hook('oc', plugin.on_request_complete)
        plugin.on_client_data = hook('cd', plugin.on_client_data)
        return plugin
    h._initialize_plugin = init

    real_hd = h.handle_data
    h._ret = None

    def handle_data(data):
        h._ret = 'exc'
        r = real_hd(data)
        h._ret = r
        return r
    h.handle_data = handle_data


STATIC_DIR = os.path.join(tempfile.gettempdir(), 'verif-c06-static')


def _static_dir():
    """fixture for --enable-static-server: two small files (created once, content fixed)"""
    if not os.path.exists(os.path.join(STATIC_DIR, 'big.txt')):
        os.makedirs(STATIC_DIR, exist_ok=True)
        for name, content in (('a.txt', b'hello\n'), ('big.txt', b'0123456789' * 30)):
            tmp = os.path.join(STATIC_DIR, '.%s.%d' % (name, os.getpid()))
            with open(tmp, 'wb') as f:
                f.write(content)
            os.replace(tmp, os.path.join(STATIC_DIR, name))
    return STATIC_DIR


def flag_args(case):
    """web: 0 = default flags, 1 = --enable-web-server, 2 = web server + static file server;
    pp: 1 = --enable-proxy-protocol (a PROXY v1 line precedes the request)"""
    web = case.get('web', 0)
    pp = ['--enable-proxy-protocol'] if case.get('pp') else []
    if web == 1:
        return pp + ['--enable-web-server']
    if web == 2:
        return pp + ['--enable-web-server', '--enable-static-server', '--static-server-dir', _static_dir()]
    return pp


def pp_str(pr):
    """request.protocol attributes once its line was parsed"""
    if pr is None or pr.version is None:
        return 'None'

    def addr(a):
        return 'None' if a is None else '%s:%d' % (hx(a[0]), a[1])
    return '(%d,%s,%s,%s)' % (pr.version, hx(pr.family), addr(pr.source), addr(pr.destination))


def drive(case):
    """Feed the segments to a fresh real handler.  Returns (per-segment observation strings, rec,
    per-segment dicts for the oracle)."""
    from proxy.http import responses as R
    old_gzip = R.gzip
    R.gzip = _GzShim()          # okResponse of the static server: same bytes in every run
    try:
        return _drive(case)
    finally:
        R.gzip = old_gzip


def _drive(case):
    from harness import sim
    logging.disable(logging.CRITICAL)
    segs = [bytes.fromhex(s) for s in case['segs']]
    args = flag_args(case)
    out, infos = [], []
    rec = Rec()
    with sim.World(args=args, strict=False) as w:
        mk = PLANS[case.get('plan', 'ok')]
        if mk is not None:
            w.connect_plan.extend(mk() for _ in range(8))
        h, cs, cp = w.new_client()
        _wrap(h, rec, w.flags)
        fd = cs.fileno()
        dead = False
        for s in segs:
            ev = w.events(h) if not dead else {}
            if dead or not (ev.get(fd, 0) & selectors.EVENT_READ):
                out.append('o=unread')
                infos.append({'o': 'unread'})
                continue
            n0 = len(h.work.buffer)
            rec.last = None
            rec.events = []
            rec.parse_exc = None
            hq = []
            cs.script_recv(('data', s))
            td = w.tick(h, [fd], [])
            esc = isinstance(td, tuple)
            buf = _buf(h)
            ret = h._ret
            added = buf[n0:]
            if rec.last is not None:
                hook, pid, kind, ptd, resp = rec.last
                first_phase = rec.events[0][0] == 'oc'
                if kind == 'ret':
                    # on_request_complete returned (and, since 84c574d, the leftover of the segment went
                    # through on_client_data as part of the same call)
                    o = ('served:%d:%d' % (pid, rec.events[0][3])) if first_phase else 'data:%d' % pid
                    cls = 'served' if first_phase else 'data'
                elif kind == 'raise':
                    hq = [resp] if resp else []
                    o = 'reject:plugin:%d' % pid
                    cls = 'reject'
                else:
                    o = 'escaped:%d' % pid
                    cls = 'escaped'
            elif ret == 'exc':
                o, cls = 'escaped:?', 'escaped'          # the handler itself let an exception out
            elif rec.parse_exc is not None:
                o = 'reject:parse:%s' % rec.parse_exc
                cls, hq = 'reject', added
            elif ret is True:
                proto = h.request.http_handler_protocol
                o = 'reject:unknown' if proto == 1 else 'reject:noplugin:%d' % proto
                cls, hq = 'reject', added
            elif h.request.state != 6:
                o, cls = 'wait', 'wait'
            else:
                o, cls = 'ignored', 'ignored'
            tdb = (td is True)
            if tdb or esc:
                dead = True
            ev2 = w.events(h)
            ri = (not dead) and bool(ev2.get(fd, 0) & selectors.EVENT_READ)
            ps = 'st=? tot=?' if rec.parse_exc is not None else 'st=%d tot=%d pp=%s' % (
                h.request.state, h.request.total_size, pp_str(h.request.protocol))
            out.append('o=%s hq=%s q=%s ret=%d mf=%d td=%d esc=%d ri=%d %s' % (
                o, bl(hq), bl(buf), 1 if ret is True else 0, int(h.must_flush_before_shutdown), int(tdb), int(esc), int(ri), ps))
            infos.append({'o': cls, 'buf': buf, 'added': added, 'ret': ret, 'mf': h.must_flush_before_shutdown,
                          'td': tdb, 'esc': esc, 'ri': ri, 'tunnel': bool(h.request.is_https_tunnel),
                          'hook': (rec.last[0] if rec.last else None), 'pname': rec.pname,
                          'method': None if h.request.method is None else bytes(h.request.method)})
    return out, rec, infos


# --------------------------------------------------------------------------------------------
# delivery: several responses queued at once, short writes and would-block on the client socket
# --------------------------------------------------------------------------------------------

ROUTE_REQ = b'GET /http-route-example HTTP/1.1\r\nHost: a\r\n\r\n'
ROUTE_REQ_CLOSE = b'GET /http-route-example HTTP/1.1\r\nHost: a\r\nConnection: close\r\n\r\n'


def drive_flush(case):
    """Real handler (web server + the example route plugin, or default flags), the request bytes fed in
    the given segments, then write-ready ticks in which the client socket's send() accepts what the
    pattern `sends` says (int k = at most k bytes, 'm1' = all but one byte, 'all', 'b' = would
    block), cyclically, until nothing is queued.  With `inter` the write-ready ticks are interleaved
    with the reads.  Returns the byte stream the client received, every packet that was queued (in
    order), what is left, and whether the handler finally asked for teardown."""
    from proxy.http import responses as R
    old_gzip = R.gzip
    R.gzip = _GzShim()
    try:
        return _drive_flush(case)
    finally:
        R.gzip = old_gzip


def _drive_flush(case):
    from harness import sim
    logging.disable(logging.CRITICAL)
    segs = [bytes.fromhex(s) for s in case['segs']]
    opts = {'plugins': ['proxy.plugin.WebServerPlugin']} if case.get('route') else {}
    sends = case['sends']
    with sim.World(args=flag_args(case), strict=False, **opts) as w:
        h, cs, cp = w.new_client()
        fd = cs.fileno()
        queued, got, pos = [], bytearray(), [0]
        real_queue = h.work.queue

        def queue(mv):
            queued.append(bytes(mv))
            return real_queue(mv)
        h.work.queue = queue

        def send(data, *a):
            data = bytes(data)
            what = sends[pos[0] % len(sends)]
            pos[0] += 1
            if what == 'b':
                raise BlockingIOError(errno.EAGAIN, 'scripted would-block')
            n = len(data) if what == 'all' else max(1, len(data) - 1) if what == 'm1' else max(1, min(int(what), len(data)))
            got.extend(data[:n])
            return n
        cs.send = send
        teardown = False

        def wtick():
            ev = w.events(h)
            if ev.get(fd, 0) & selectors.EVENT_WRITE:
                return w.tick(h, [], [fd]) is True
            return False
        for sgm in segs:
            ev = w.events(h)
            if teardown or not (ev.get(fd, 0) & selectors.EVENT_READ):
                break
            cs.script_recv(('data', sgm))
            W = [fd] if case.get('inter') and (ev.get(fd, 0) & selectors.EVENT_WRITE) else []
            teardown = w.tick(h, [fd], W) is True
        for _ in range(20000):
            if teardown or not h.work.has_buffer():
                break
            teardown = wtick()
        return {'stream': bytes(got), 'queued': queued, 'left': len(h.work.buffer), 'teardown': teardown,
                'mf': h.must_flush_before_shutdown}


def h11_stream(raw, n):
    """None when h11 (client role) reads `raw` as exactly n complete responses to n pipelined GETs
    and nothing else"""
    import h11
    c = h11.Connection(our_role=h11.CLIENT)
    fed = False
    try:
        for i in range(n):
            c.send(h11.Request(method=b'GET', target=b'/', headers=[(b'Host', b'a')]))
            c.send(h11.EndOfMessage())
            if not fed:
                c.receive_data(raw)
                fed = True
            got = False
            while True:
                ev = c.next_event()
                if ev is h11.NEED_DATA:
                    return 'response-%d-incomplete' % (i + 1)
                if ev is h11.PAUSED:
                    break
                if isinstance(ev, h11.Response):
                    got = True
                if isinstance(ev, h11.EndOfMessage):
                    break
                if isinstance(ev, h11.ConnectionClosed):
                    return 'closed-before-response-%d' % (i + 1)
            if not got:
                return 'no-response-%d' % (i + 1)
            if i + 1 < n:
                if c.our_state is h11.MUST_CLOSE or c.their_state is h11.MUST_CLOSE:
                    return 'connection-close-announced-before-response-%d' % (i + 2)
                c.start_next_cycle()
    except h11.RemoteProtocolError as e:
        return 'h11:' + str(e)[:50].replace(' ', '-')
    except h11.LocalProtocolError as e:
        return 'h11-local:' + str(e)[:50].replace(' ', '-')
    if n == 0:
        return None if not raw else 'bytes-without-a-request'
    if c.trailing_data[0]:
        return 'surplus-bytes-after-the-last-response'
    return None


SEND_PATTERNS = [
    ['all'], [1], ['m1'], [1, 'all'], ['m1', 'all'], ['b', 'all'], ['b', 1, 'm1', 'all'], [2, 'b', 'b', 'm1'], [7], [64, 1],
    ['m1', 1], [40, 'b', 'all'], [100, 'm1', 3],
]


def _flush(segs, expect, sends, web=1, route=1, inter=0, closing=0):
    return {'kind': 'flush', 'web': web, 'route': route, 'inter': inter, 'closing': closing, 'expect': expect,
            'sends': sends, 'segs': [x.hex() for x in segs if x]}


def flush_streams(rng=None):
    """(request bytes, number of responses the client must get, connection closes afterwards, web, route)"""
    out = []
    for n in (1, 2, 3, 5):
        out.append((ROUTE_REQ * n, n, 0, 1, 1))
        # a pipelined non-keep-alive request is answered, then the connection is torn down (the very
        # first request's `Connection: close` is not acted upon by the web plugin)
        out.append((ROUTE_REQ * (n - 1) + ROUTE_REQ_CLOSE, n, 1 if n > 1 else 0, 1, 1))
    out.append((b'GET /nope HTTP/1.1\r\n\r\n', 1, 1, 1, 1))                      # 404 + close
    out.append((b'GET /a.txt HTTP/1.1\r\n\r\n', 1, 1, 2, 0))                     # static file + close
    out.append((b'GET /big.txt HTTP/1.1\r\n\r\n', 1, 1, 2, 0))                   # compressed static file + close
    out.append((b'GARBAGE\r\n\r\n', 1, 1, 0, 0))                                 # the canned 400 + close
    out.append((b'GET / HTTP/1.1\r\n\r\n', 1, 1, 0, 0))                          # no plugin: 400 + close
    out.append((b'GET http://h/ HTTP/2.0\r\n\r\n', 1, 1, 1, 1))                  # unknown protocol: 400 + close
    return out


def flush_cases(rng, reps):
    streams = flush_streams()
    for raw, n, closing, web, route in streams:
        for sends in SEND_PATTERNS:
            yield _flush([raw], n, sends, web, route, 0, closing)
    for _ in range(reps):
        raw, n, closing, web, route = rng.choice(streams)
        k = rng.choice([1, 2, 3, 5, 9, 30, 'm1', 'all', 'b'])
        sends = [rng.choice([1, 2, 3, k, k, 'm1', 'all', 'b', rng.randrange(1, 200)]) for _ in range(rng.randrange(1, 6))]
        if all(x == 'b' for x in sends):
            sends.append(rng.randrange(1, 50))
        segs = G.split_at(raw, G.cuts(rng, len(raw), rng.choice([0, 0, 1, 2, 4])))
        yield _flush(segs, n, sends, web, route, rng.randrange(2), closing)


# --------------------------------------------------------------------------------------------
# builders
# --------------------------------------------------------------------------------------------

class _GzShim:
    """`gzip` as seen by proxy.http.responses: compress() with a pinned mtime"""

    def __getattr__(self, item):
        return getattr(gzip, item)

    @staticmethod
    def compress(data, *a, **kw):
        return gzip.compress(data, mtime=0)


def hdict(h):
    if h is None:
        return None
    return {bytes.fromhex(k): bytes.fromhex(v) for k, v in h}


def hdrs_tok(h):
    if not h:
        return '-'
    return ','.join('%s:%s' % (k or '-', v or '-') for k, v in h)


def ob(x):
    return None if x is None else bytes.fromhex(x)


def tok(x):
    return 'None' if x is None else (x or '-')


def build(case):
    """call the real builder; bytes or raises"""
    from proxy.common import utils as U
    from proxy.http import responses as R
    from proxy.http.exception import HttpRequestRejected
    k = case['kind']
    if k == 'mkres':
        return U.build_http_response(case['status'], bytes.fromhex(case['version']), ob(case['reason']),
                                     hdict(case['headers']), ob(case['body']), bool(case['cc']), bool(case['nocl']))
    if k == 'ok':
        old = R.gzip
        R.gzip = _GzShim()
        try:
            return bytes(R.okResponse(ob(case['content']), hdict(case['headers']), bool(case['compress']),
                                      case['minlen'], protocol_version=bytes.fromhex(case['version']),
                                      conn_close=bool(case['cc']), no_cl=bool(case['nocl'])))
        finally:
            R.gzip = old
    if k == 'r308':
        return bytes(R.permanentRedirectResponse(bytes.fromhex(case['loc'])))
    if k == 'r303':
        return bytes(R.seeOthersResponse(bytes.fromhex(case['loc'])))
    if k == 'rejected':
        r = HttpRequestRejected(case['status'], ob(case['reason']), hdict(case['headers']), ob(case['body'])).response(None)
        return None if r is None else bytes(r)
    if k == 'wshs':
        return U.build_websocket_handshake_response(bytes.fromhex(case['accept']))
    raise ValueError(k)


def _impl(case):
    k = case['kind']
    if k == 'run':
        return [' | '.join(drive(case)[0])]
    if k == 'wf':
        return ['wf=%d' % (h11_check(bytes.fromhex(case['raw']), case['ctx']) is None)]
    if k == 'flush':
        return ['ok ' + hx(drive_flush(case)['stream'])]
    try:
        r = build(case)
    except Exception as e:
        return ['exc ' + exc_name(e)]
    return ['ok ' + hx(r)]


def impl(case):
    r = guarded(_impl, case)
    return ['hang'] if r == 'hang' else r


def model_lines(case):
    k = case['kind']
    if k == 'run':
        # the plugin parameter of the model is what the real plugin did (see ASSUMPTIONS)
        r = guarded(drive, case, cpu=2)
        if r == 'hang':
            return ['first run %s - none . %s' % ('pp' if case.get('pp') else '-', ' '.join(case['segs']))]
        _, rec, _ = r
        from proxy.common.flag import FlagParser   # noqa: F401  (flags are built by World)
        plugins = case_plugins(case)
        return ['first run %s %s %s %s %s' % ('pp' if case.get('pp') else '-', plugins, rec.oc or 'none',
                                              ','.join(rec.cds) or '.', ' '.join(case['segs']))]
    if k == 'wf':
        return ['first wf %s %s' % (case['ctx'], case['raw'] or '-')]
    if k == 'flush':
        # the packets the handler / plugins queued are recorded from a run of the real code in which
        # every send() takes everything; the model says what the client must then receive
        r = guarded(drive_flush, dict(case, sends=['all']), cpu=3)
        return ['first cat ' + ('-' if r == 'hang' else bl(r['queued']))]
    if k == 'mkres':
        return ['hp mkres %d %s %s %s %s %d %d' % (case['status'], case['version'] or '-', tok(case['reason']),
                                                    hdrs_tok(case['headers']), tok(case['body']), case['cc'], case['nocl'])]
    if k == 'ok':
        content = ob(case['content'])
        gz = gzip.compress(content, mtime=0) if content is not None else b''
        return ['first ok %s %s %s %d %d %s %d %d' % (hx(gz), tok(case['content']), hdrs_tok(case['headers']),
                                                      case['compress'], case['minlen'], case['version'] or '-',
                                                      case['cc'], case['nocl'])]
    if k == 'r308':
        return ['first redirect308 ' + (case['loc'] or '-')]
    if k == 'r303':
        return ['first redirect303 ' + (case['loc'] or '-')]
    if k == 'rejected':
        return ['first rejected %s %s %s %s' % ('None' if case['status'] is None else case['status'], tok(case['reason']),
                                                hdrs_tok(case['headers']), tok(case['body']))]
    if k == 'wshs':
        return ['first wshs ' + (case['accept'] or '-')]
    raise ValueError(k)


_PLUGINS = {}


def case_plugins(case):
    """flags.plugins[b'HttpProtocolHandlerPlugin'] as the model wants it: protocols() per class"""
    web = case.get('web', 0)
    if web not in _PLUGINS:
        from harness import sim
        with sim.World(args=flag_args(case), strict=False) as w:
            ks = w.flags.plugins.get(b'HttpProtocolHandlerPlugin', [])
            _PLUGINS[web] = ','.join('.'.join(str(p) for p in k.protocols()) or 'e' for k in ks) or '-'
    return _PLUGINS[web]


# --------------------------------------------------------------------------------------------
# the independent parser
# --------------------------------------------------------------------------------------------

def h11_check(raw, ctx='other', eof=True):
    """None when h11 (client role) accepts `raw` as exactly one response with a body consistent with
    its framing, else a short reason.  ctx: 'connect' = answer to CONNECT, 'upgrade' = answer to a
    websocket upgrade request, 'other' = answer to a GET."""
    import h11
    c = h11.Connection(our_role=h11.CLIENT)
    if ctx == 'connect':
        c.send(h11.Request(method=b'CONNECT', target=b'h:443', headers=[(b'Host', b'h:443')]))
    elif ctx == 'upgrade':
        c.send(h11.Request(method=b'GET', target=b'/', headers=[(b'Host', b'h'), (b'Connection', b'upgrade'),
                                                               (b'Upgrade', b'websocket')]))
    else:
        c.send(h11.Request(method=b'GET', target=b'/', headers=[(b'Host', b'h')]))
    c.send(h11.EndOfMessage())
    try:
        c.receive_data(raw)
        if eof:
            c.receive_data(b'')
        got_resp, ended, body = None, False, 0
        for _ in range(100000):
            ev = c.next_event()
            if ev is h11.NEED_DATA:
                return 'incomplete'
            if ev is h11.PAUSED:
                break
            if isinstance(ev, h11.InformationalResponse):
                if ev.status_code == 101:
                    got_resp, ended = ev, True
                    break
                continue
            if isinstance(ev, h11.Response):
                got_resp = ev
            elif isinstance(ev, h11.Data):
                body += len(ev.data)
            elif isinstance(ev, h11.EndOfMessage):
                ended = True
            elif isinstance(ev, h11.ConnectionClosed):
                break
    except h11.RemoteProtocolError as e:
        return 'h11:' + str(e)[:60].replace(' ', '-')
    if got_resp is None:
        return 'no-response'
    switched = c.their_state is h11.SWITCHED_PROTOCOL
    if not ended and not switched:
        return 'no-end-of-message'
    trailing = c.trailing_data[0]
    if trailing:
        return 'trailing-bytes-after-response'
    return None


# --------------------------------------------------------------------------------------------
# oracle: the property itself, on the implementation only
# --------------------------------------------------------------------------------------------

def _oracle(case):
    k = case['kind']
    if k == 'wf':
        return None
    if k == 'flush':
        r = drive_flush(case)
        why = h11_stream(r['stream'], case['expect'])
        if r['left'] and (why is None or 'incomplete' in why):
            return 'queued-output-never-drained'
        if why:
            return 'client-stream-not-a-sequence-of-valid-responses:' + why
        if case.get('closing') and not r['teardown']:
            return 'connection-kept-open-after-reject'
        return None
    if k != 'run':
        if not in_guard(case):
            return None
        try:
            r = build(case)
        except Exception as e:
            return 'builder-raises-' + exc_name(e)
        if r is None:
            return None
        ctx = 'upgrade' if k == 'wshs' else case.get('ctx', 'other')
        code = int(r[9:12])
        if code == 101:
            ctx = 'upgrade'
        elif code < 200:
            # an interim response: h11 must accept it in front of a final one
            r = r + b'HTTP/1.1 204 No Content\r\n\r\n'
        why = h11_check(r, ctx)
        if why:
            return 'builder-output-rejected-by-h11:' + why
        if k == 'ok' and case['content'] is not None:
            # framing carries exactly the (possibly compressed) content
            head, _, body = r.partition(b'\r\n\r\n')
            content = bytes.fromhex(case['content'])
            compressed = bool(case['compress']) and len(content) > case['minlen']
            plain = gzip.decompress(body) if compressed else body
            if plain != bytes.fromhex(case['content']):
                return 'ok-response-body-differs-from-content'
        return None
    obs, rec, infos = drive(case)
    if len(case['segs']) > 1:
        # the decision on the first request must not depend on how the bytes were cut
        whole = dict(case, segs=[''.join(case['segs'])])
        w_obs = drive(whole)[0]
        a, b = _terminal(obs), _terminal(w_obs)
        if not _same_story(a, b):
            return 'outcome-depends-on-segmentation:%s-vs-%s' % ('+'.join(a) or 'wait', '+'.join(b) or 'wait')
    decided = False
    for info in infos:
        o = info['o']
        if o == 'unread':
            continue
        if decided:
            return 'client-bytes-read-after-the-connection-was-rejected'
        sent = b''.join(info['buf'])
        if o == 'wait':
            if sent or info['ret'] is True or info['td'] or not info['ri']:
                return 'output-or-teardown-while-waiting-for-the-rest-of-the-request'
            continue
        if o == 'ignored':
            return 'request-complete-but-neither-served-nor-rejected'
        if o == 'escaped':
            if info['hook'] is None:
                # not a plugin hook: the handler itself let an exception out instead of answering 400
                return 'exception-escapes-handle-data'
            # a non-protocol exception of plugin code: the executor closes the connection (C05) and the
            # client gets no answer at all.  Judged a defect exactly when known_findings.json records it.
            fid = crash_finding(info)
            if fid is None:
                # on_request_complete (non-UTF-8 host e5b7001, non-UTF-8 / NUL web path eb09b1e, empty
                # method 1e14ff2 are fixed): must end with a well-formed response, never as a bare close
                return 'request-' + CRASH_SIG
            if fid in RECORDED:
                return CRASH_SIG + ':' + fid
            if sent:
                why = h11_check(sent, 'other')
                if why:
                    return 'malformed-output-before-crash:' + why
            decided = True
            continue
        closing = info['ret'] is True
        if o == 'reject' and info.get('hook') == 'cd' and not sent and 'D29' in RECORDED:
            # follow-up bytes (a later segment, or packed behind the first request) that the plugin's
            # on_client_data refuses with a protocol exception carrying no response: bare close, and
            # whatever the first request was waiting for is dropped — the other half of D29
            return FOLLOWUP_SIG + ':D29'
        if o == 'reject' or closing:
            if sent:
                why = h11_check(sent, 'other')
                if why:
                    return 'reject-response-not-accepted-by-h11:' + why
                if not info['mf']:
                    return 'connection-kept-open-after-reject'
            elif not info['td']:
                return 'connection-kept-open-after-reject'
            if info['ri']:
                return 'read-interest-kept-after-reject'
            decided = True
            continue
        # served / data without teardown: whatever was queued by the proxy itself must be well formed
        if o == 'served' and sent:
            why = h11_check(sent, 'connect' if info['tunnel'] else 'other', eof=False)
            if why:
                return 'served-response-not-accepted-by-h11:' + why
    return None


def _terminal(obs):
    """the decisions of a run in order: outcomes other than wait / unread / data, a reject by its
    reason group"""
    out = []
    for line in obs:
        o = line.split(' ')[0][2:]
        parts = o.split(':')
        if parts[0] in ('wait', 'unread', 'data'):
            continue
        out.append(':'.join(parts[:2]) if parts[0] == 'reject' else parts[0])
    return out


def _same_story(cut, whole):
    """bytes that follow a served first request in the same segment reach on_client_data within the
    same call, so its protocol exception / crash replaces the `served` of the cut run"""
    if cut == whole:
        return True
    return (len(cut) == 2 and cut[0] == 'served' and whole == cut[1:]
            and whole[0] in ('reject:plugin', 'escaped'))


def oracle(case):
    return guarded(_oracle, case)


CRASH_SIG = 'closed-without-response-after-unhandled-exception'
FOLLOWUP_SIG = 'closed-without-response-after-malformed-follow-up'


def crash_finding(info):
    """which recorded finding (if any) covers a plugin hook that let a non-protocol exception escape:
    only follow-up bytes handed to on_client_data — later segments, or (since 84c574d) the bytes packed
    into the same segment behind the first request (D29).  Anything escaping on_request_complete
    (proxy or web plugin: D27 / D28 / D31 are fixed) is an unconditional failure."""
    if info.get('hook') == 'cd':
        return 'D29'
    return None


def _recorded():
    try:
        here = os.path.dirname(os.path.dirname(os.path.abspath(__file__)))
        fs = json.load(open(os.path.join(here, 'known_findings.json')))['findings']
        return {f['id'] for f in fs if f.get('property') == PROPERTY and f.get('status') == 'open'}
    except Exception:
        return set()


RECORDED = _recorded()


def classify(case, sig):
    if sig and (sig.startswith(CRASH_SIG + ':') or sig.startswith(FOLLOWUP_SIG + ':')):
        return sig.rsplit(':', 1)[1]
    return None


def finding_witnesses():
    return {
        'D29': _run([b'GET http://h/ HTTP/1.1\r\n\r\n', b'POST http://h/ HTTP/1.1\r\nContent-Length: zz\r\n\r\n'], 0, 'ok'),
    }


# --------------------------------------------------------------------------------------------
# guards / generators
# --------------------------------------------------------------------------------------------

TCHAR = set(b"!#$%&'*+-.^_`|~0123456789abcdefghijklmnopqrstuvwxyzABCDEFGHIJKLMNOPQRSTUVWXYZ")


def is_token(x):
    return len(x) > 0 and all(c in TCHAR for c in x)


def field_ok(x):
    return all(c in (9, 32) or 33 <= c <= 126 or c >= 128 for c in x)


def _warm():
    """import the implementation and run one connection in the parent, so that forked workers do
    not each pay for it inside a guarded case"""
    import h11  # noqa: F401
    drive({'kind': 'run', 'web': 1, 'plan': 'refuse', 'segs': [b'GET http://h/ HTTP/1.1\r\n\r\n'.hex()]})
    drive({'kind': 'run', 'web': 0, 'plan': 'ok', 'segs': [b'CONNECT h:443 HTTP/1.1\r\n\r\n'.hex()]})
    h11_check(b'HTTP/1.1 204 No Content\r\n\r\n')


def in_guard(case):
    """SafeArgs of the Lean side, for the builder cases"""
    k = case['kind']
    if k in ('r308', 'r303'):
        return field_ok(bytes.fromhex(case['loc']))
    if k == 'wshs':
        return field_ok(bytes.fromhex(case['accept']))
    if k not in ('mkres', 'ok', 'rejected'):
        return False
    status = 200 if k == 'ok' else case['status']
    if k == 'rejected' and not status:
        return True
    version = bytes.fromhex(case['version']) if k != 'rejected' else b'HTTP/1.1'
    reason = None if k == 'ok' else ob(case['reason'])
    cc = True if k == 'rejected' else bool(case['cc'])
    nocl = False if k == 'rejected' else bool(case['nocl'])
    body = ob(case['content'] if k == 'ok' else case['body'])
    ctx = case.get('ctx', 'other')
    if version not in (b'HTTP/1.1', b'HTTP/1.0') or not (100 <= status <= 999):
        return False
    if reason is not None and not field_ok(reason):
        return False
    for kx, vx in (case['headers'] or []):
        kb, vb = bytes.fromhex(kx), bytes.fromhex(vx)
        if not is_token(kb) or not field_ok(vb) or kb.lower() == b'transfer-encoding':
            return False
        if kb.lower() == b'content-length' and (kb != b'Content-Length' or nocl):
            return False
    empty = not body
    if ctx == 'connect' and 200 <= status < 300:
        return nocl and empty
    if status < 200 or status in (204, 304):
        return empty
    return (not nocl) or cc


def _run(segs, web=0, plan='ok', pp=0):
    c = {'kind': 'run', 'web': web, 'plan': plan, 'segs': [s.hex() for s in segs if s]}
    if pp:
        c['pp'] = 1
    return c


# PROXY protocol v1 lines (without their CRLF): valid ones incl. the worst-case lengths of the
# specification, and malformed ones
PP_VALID = [
    b'PROXY TCP4 10.0.0.1 10.0.0.2 56324 443', b'PROXY TCP4 255.255.255.255 255.255.255.255 65535 65535',
    b'PROXY TCP6 ::1 ::1 1 2', b'PROXY TCP6 2001:db8::1 2001:db8::2 65535 65535', b'PROXY UNKNOWN',
    b'PROXY UNKNOWN 1 2 3 4', b'PROXY TCP4 a b +1 0_0',
]
PP_SPEC_VALID_TOO_LONG = [
    # valid per the specification (v1 line up to 107 bytes) but longer than the 57 the code allows
    b'PROXY TCP6 ffff:ffff:ffff:ffff:ffff:ffff:ffff:ffff ffff:ffff:ffff:ffff:ffff:ffff:ffff:ffff 65535 65535',
    b'PROXY UNKNOWN ffff:ffff:ffff:ffff:ffff:ffff:ffff:ffff ffff:ffff:ffff:ffff:ffff:ffff:ffff:ffff 65535 65535',
    b'PROXY TCP6 2001:db8:85a3::8a2e:370:7334 2001:db8:85a3::8a2e:370:7335 443 8080',
]
PP_BAD = [
    b'PROXY', b'PROXY ', b'PROXY TCP5 1.2.3.4 1.2.3.5 1 2', b'PROXY TCP4', b'PROXY TCP4 1.2.3.4', b'PROXY TCP4 1.2.3.4 1.2.3.5 1',
    b'PROXY TCP4 1.2.3.4 1.2.3.5 x 2', b'PROXY TCP4 1.2.3.4 1.2.3.5 1 y', b'PROXY TCP4 1.2.3.4 1.2.3.5 1 2 3', b'PROXYX TCP4 a b 1 2',
    b'PROXY  TCP4 a b 1 2', b'PROXY tcp4 a b 1 2', b'proxy TCP4 a b 1 2', b'PROXY TCP4 a b 1 2 ', b'PROXY UNKNOWN x', b'PROXY\tTCP4 a b 1 2',
    b'PROXY TCP4 ' + b'1' * 60, b'', b'\x0d\x0a\x0d\x0a\x00\x0d\x0a\x51\x55\x49\x54\x0a\x21\x11\x00\x0c' + bytes(12),
    b'PROXY TCP4 1.2.3.4 1.2.3.5 1 \xff', b'PROXY TCP4 \xff\xfe b 1 2',
]
PP_REQS = [
    b'GET http://h/ HTTP/1.1\r\n\r\n', b'GET / HTTP/1.1\r\nHost: a\r\n\r\n', b'CONNECT h:443 HTTP/1.1\r\n\r\n',
    b'POST http://h/p HTTP/1.1\r\nContent-Length: 3\r\n\r\nabc', b'GARBAGE\r\n\r\n', b'GET ftp://h/ HTTP/1.1\r\n\r\n',
    b'GET http://h/ HTTP/2.0\r\n\r\n', b'POST http://h/ HTTP/1.1\r\nContent-Length: zz\r\n\r\n', b'PROXY UNKNOWN\r\nGET http://h/ HTTP/1.1\r\n\r\n', b'',
]


def pp_stream(rng):
    r = rng.random()
    line = rng.choice(PP_VALID) if r < 0.5 else rng.choice(PP_SPEC_VALID_TOO_LONG) if r < 0.6 else rng.choice(PP_BAD)
    if rng.random() < 0.15:
        line = G.mutate(rng, line)
    return line + rng.choice([b'\r\n', b'\r\n', b'\r\n', b'\n', b'']) + rng.choice(PP_REQS)


HANG1 = b'POST http://h/ HTTP/1.1\r\nContent-Length: 5\r\nContent-Length: 0\r\n\r\nX'
HANG2 = b'POST http://h/ HTTP/1.1\r\nTransfer-Encoding: chunked\r\n\r\n-1\r\nX'

FIXED = [
    b'GET / HTTP/1.1\r\nHost: a\r\n\r\n',
    b'GET http://example.com/ HTTP/1.1\r\nHost: example.com\r\n\r\n',
    b'CONNECT example.com:443 HTTP/1.1\r\n\r\n',
    b'POST http://h/p HTTP/1.1\r\nContent-Length: 5\r\n\r\nhello',
    b'POST http://h/p HTTP/1.1\r\nTransfer-Encoding: chunked\r\n\r\n5\r\nhello\r\n0\r\n\r\n',
    HANG1, HANG2,
    HANG1.replace(b'http://h', b''), HANG2.replace(b'http://h', b''),
    b'GARBAGE\r\n\r\n', b'\r\n\r\n', b'\x00\xff\xfe', b'GET\r\n\r\n', b'GET  HTTP/1.1\r\n\r\n',
    b'REGISTER sip:example.com SIP/2.0\r\n\r\n',
    b'GET ftp://h/ HTTP/1.1\r\n\r\n', b'GET gopher://h:70/ HTTP/1.1\r\n\r\n', b'GET ://h/ HTTP/1.1\r\n\r\n',
    b'GET http://h/ HTTP/2.0\r\n\r\n', b'GET http://h/ http/1.1\r\n\r\n', b'GET http://h/ HTTP/0.9\r\n\r\n',
    b'GET http://\xff\xfe/ HTTP/1.1\r\n\r\n', b'G\xc3T http://h/ HTTP/1.1\r\n\r\n',
    b'GET http://h/\xff HTTP/1.1\r\nX-\xff: \xfe\r\n\r\n',
    b'GET http://h:99999999999999999999/ HTTP/1.1\r\n\r\n', b'GET http://h:-1/ HTTP/1.1\r\n\r\n',
    b'GET http://h:x/ HTTP/1.1\r\n\r\n', b'GET http://[::1/ HTTP/1.1\r\n\r\n', b'CONNECT h HTTP/1.1\r\n\r\n',
    b'CONNECT h:443 HTTP/1.1\r\nContent-Length: x\r\n\r\n',
    b'POST http://h/ HTTP/1.1\r\nContent-Length: 99999999999999999999999\r\n\r\nabc',
    b'POST http://h/ HTTP/1.1\r\nContent-Length: ' + b'9' * 4301 + b'\r\n\r\nabc',
    b'POST http://h/ HTTP/1.1\r\nContent-Length: -5\r\n\r\nabc',
    b'POST http://h/ HTTP/1.1\r\nContent-Length: +5\r\n\r\nabcde',
    b'POST http://h/ HTTP/1.1\r\nContent-Length: 5_0\r\n\r\nabc',
    b'POST http://h/ HTTP/1.1\r\nContent-Length: 0x5\r\n\r\nabc',
    b'POST http://h/ HTTP/1.1\r\nContent-Length: five\r\n\r\nabc',
    b'POST http://h/ HTTP/1.1\r\nContent-Length:\r\n\r\nabc',
    b'POST http://h/ HTTP/1.1\r\nContent-Length: 3\r\nContent-Length: 4\r\n\r\nabcd',
    b'POST http://h/ HTTP/1.1\r\nContent-Length: 3\r\nTransfer-Encoding: chunked\r\n\r\n3\r\nabc\r\n0\r\n\r\n',
    b'POST http://h/ HTTP/1.1\r\nTransfer-Encoding: chunked\r\n\r\nzz\r\nabc\r\n0\r\n\r\n',
    b'POST http://h/ HTTP/1.1\r\nTransfer-Encoding: chunked\r\n\r\nffffffffffffffffffffff\r\nabc',
    b'POST http://h/ HTTP/1.1\r\nTransfer-Encoding: chunked\r\n\r\n0x3\r\nabc\r\n0\r\n\r\n',
    b'POST http://h/ HTTP/1.1\r\nTransfer-Encoding: chunked\r\n\r\n-0\r\n\r\n',
    b'GET http://h/ HTTP/1.1\r\nNoColonHere\r\n\r\n', b'GET http://h/ HTTP/1.1\r\n: empty-name\r\n\r\n',
    b'GET http://h/ HTTP/1.1\r\n\r\nGET http://h/2 HTTP/1.1\r\n\r\n',
    b'GET http://h/ HTTP/1.1\n\n', b'GET http://h/ HTTP/1.1\r\r\n\r\n',
    b'GET http://a@b@c/ HTTP/1.1\r\n\r\n', b'GET http://u:p@h:80/ HTTP/1.1\r\n\r\n',
    b'OPTIONS * HTTP/1.1\r\n\r\n', b'GET /\xff HTTP/1.1\r\n\r\n', b'GET //h/x HTTP/1.1\r\n\r\n',
]


def segmentations(rng, raw, n):
    out = [[raw]]
    for _ in range(n):
        out.append(G.split_at(raw, G.cuts(rng, len(raw), rng.choice([1, 1, 2, 3, 5, 8]))))
    return out


STATIC_FIXED = [
    b'GET /a.txt HTTP/1.1\r\n\r\n', b'GET /big.txt HTTP/1.1\r\nAccept-Encoding: gzip\r\n\r\n', b'GET /none HTTP/1.1\r\n\r\n',
    b'GET /a.txt?x=1 HTTP/1.0\r\n\r\n', b'GET /../a.txt HTTP/1.1\r\n\r\n', b'GET /a\x00.txt HTTP/1.1\r\n\r\n',
    b'GET /\xff HTTP/1.1\r\n\r\n', b'HEAD /a.txt HTTP/1.1\r\n\r\n', b'POST /a.txt HTTP/1.1\r\nContent-Length: 2\r\n\r\nhi',
]
FOLLOW_UPS = [
    b'POST http://h/ HTTP/1.1\r\nContent-Length: zz\r\n\r\n', b'GARBAGE\r\n\r\n', b'GET http://h/2 HTTP/1.1\r\n\r\n',
    b'GET ftp://h/ HTTP/1.1\r\n\r\n', b'\x00\xff', b'POST http://h/ HTTP/1.1\r\nTransfer-Encoding: chunked\r\n\r\n-1\r\nX',
]


def corpus():
    cs = []
    for line in PP_VALID + PP_SPEC_VALID_TOO_LONG + PP_BAD:
        for req in PP_REQS[:3]:
            raw = line + b'\r\n' + req
            cs.append(_run([raw], 0, 'ok', 1))
            cs.append(_run([line + b'\r\n', req], 1, 'refuse', 1))
        raw = line + b'\r\n' + PP_REQS[0]
        cs.append(_run([raw[:9], raw[9:]], 0, 'ok', 1))
        cs.append(_run([line + b'\r', b'\n' + PP_REQS[0]], 0, 'ok', 1))
        if len(raw) <= 90:
            cs.append(_run([bytes([c]) for c in raw], 0, 'refuse', 1))
    for req in PP_REQS:
        cs.append(_run([req], 0, 'ok', 1))                     # flag on, no PROXY line at all
        cs.append(_run([PP_VALID[0] + b'\r\n' + req], 2, 'ok', 1))
    # former findings, now fixed: must yield a valid 400 / 404 / 502 (a revert is a VIOLATION)
    cs.append(_run([b'GET http://\xff/ HTTP/1.1\r\n\r\n'], 0, 'ok'))                  # D27
    for web in (1, 2):
        cs.append(_run([b'GET /\xff HTTP/1.1\r\n\r\n'], web, 'ok'))                    # D28
        cs.append(_run([b'GET /a\x00.txt HTTP/1.1\r\n\r\n'], web, 'ok'))
    for plan in ('ok', 'refuse'):
        cs.append(_run([b' http://h/ HTTP/1.1\r\n\r\n'], 0, plan))                      # D31
        cs.append(_run([b' h:443 HTTP/1.1\r\n\r\n'], 0, plan))
    # D29, packed into one segment with the first request (84c574d hands the leftover on)
    for junk in (b'\r\n', b'GARBAGE\r\n\r\n', b'POST http://h/ HTTP/1.1\r\nContent-Length: zz\r\n\r\n'):
        cs.append(_run([b'GET http://example.org/a HTTP/1.1\r\nHost: example.org\r\n\r\n' + junk], 0, 'ok'))
    for raw in STATIC_FIXED:
        cs.append(_run([raw], 2, 'ok'))
        cs.append(_run([raw[:7], raw[7:]], 2, 'ok'))
    for fu in FOLLOW_UPS:
        for plan in ('ok', 'refuse'):
            cs.append(_run([b'GET http://h/ HTTP/1.1\r\n\r\n', fu], 0, plan))
        cs.append(_run([b'CONNECT h:443 HTTP/1.1\r\n\r\n', fu], 0, 'ok'))
    for raw in FIXED:
        for web in (0, 1):
            for plan in ('ok', 'refuse'):
                cs.append(_run([raw], web, plan))
        cs.append(_run([raw[:len(raw) // 2], raw[len(raw) // 2:]], 0, 'ok'))
        cs.append(_run([raw, b'more bytes'], 1, 'ok'))
        if len(raw) <= 80:
            cs.append(_run([bytes([c]) for c in raw], 0, 'refuse'))
    cs += builder_corpus()
    cs += list(flush_cases(None, 0))
    return cs


def _mk(status, version=b'HTTP/1.1', reason=None, headers=None, body=None, cc=0, nocl=0, ctx='other'):
    return {'kind': 'mkres', 'status': status, 'version': version.hex(), 'reason': None if reason is None else reason.hex(),
            'headers': None if headers is None else [[k.hex(), v.hex()] for k, v in headers],
            'body': None if body is None else body.hex(), 'cc': cc, 'nocl': nocl, 'ctx': ctx}


def _ok(content, headers=None, compress=1, minlen=20, version=b'HTTP/1.1', cc=0, nocl=0):
    return {'kind': 'ok', 'content': None if content is None else content.hex(),
            'headers': None if headers is None else [[k.hex(), v.hex()] for k, v in headers],
            'compress': compress, 'minlen': minlen, 'version': version.hex(), 'cc': cc, 'nocl': nocl}


def _rej(status, reason=None, headers=None, body=None):
    return {'kind': 'rejected', 'status': status, 'reason': None if reason is None else reason.hex(),
            'headers': None if headers is None else [[k.hex(), v.hex()] for k, v in headers],
            'body': None if body is None else body.hex()}


def _wf(raw, ctx='other'):
    return {'kind': 'wf', 'ctx': ctx, 'raw': raw.hex()}


def canned():
    from proxy.http import responses as R
    out = []
    for name in dir(R):
        v = getattr(R, name)
        if isinstance(v, memoryview):
            out.append((name, bytes(v)))
    return out


def builder_corpus():
    cs = [
        _mk(200, reason=b'Connection established', nocl=1, ctx='connect'),
        _mk(400, reason=b'BAD REQUEST', headers=[(b'Server', b'x')], cc=1),
        _mk(407, reason=b'Proxy Authentication Required', headers=[(b'Proxy-agent', b'p'), (b'Proxy-Authenticate', b'Basic')],
            body=b'Proxy Authentication Required', cc=1, nocl=1),
        _mk(200, reason=b'OK', body=b'hello'), _mk(200), _mk(204, reason=b''), _mk(304, reason=b'Not Modified', cc=1),
        _mk(200, reason=b'OK', headers=[(b'Content-Length', b'999')], body=b'abc'),
        _mk(200, reason=b'OK', headers=[(b'content-length', b'999')], body=b'abc'),       # outside the guard
        _mk(200, reason=b'OK', headers=[(b'Transfer-Encoding', b'chunked')], body=b'3\r\nabc\r\n0\r\n\r\n'),
        _mk(200, reason=b'OK\r\nX: y', body=b'abc'),                                       # injection, outside the guard
        _mk(200, reason=b'OK', headers=[(b'X', b'a\r\nY: b')], body=b'abc'),
        _mk(200, reason=b'OK', nocl=1), _mk(200, reason=b'OK', nocl=1, cc=1, body=b'until close'),
        _mk(-5, reason=b'neg'), _mk(99999, reason=b'big'), _mk(0),
        _ok(b'Hello from man in the middle'), _ok(b'short'), _ok(None), _ok(b''), _ok(b'x' * 21, compress=0),
        _ok(b'x' * 20), _ok(b'x' * 21, headers=[(b'Content-Type', b'text/plain')], cc=1),
        _ok(b'y' * 100, minlen=-1), _ok(b'y' * 3, minlen=2, version=b'HTTP/1.0'), _ok(b'z' * 50, nocl=1, cc=1),
        {'kind': 'r308', 'loc': b'/dashboard/'.hex()}, {'kind': 'r303', 'loc': b'http://proxy.py/x?y=1'.hex()},
        {'kind': 'r303', 'loc': b'/x\r\n\r\nHTTP/1.1 200 OK\r\nContent-Length: 0\r\n\r\n'.hex()},   # the injection witness
        {'kind': 'r308', 'loc': ''},
        _rej(418, b"I'm a tea pot"), _rej(None), _rej(0, b'zero'), _rej(403, None, [(b'X-Why', b'policy')], b'denied'),
        {'kind': 'wshs', 'accept': b's3pPLMBiTxaQ9kYGzzhZRbK+xOo='.hex()}, {'kind': 'wshs', 'accept': ''},
    ]
    for name, raw in canned():
        ctx = 'connect' if name == 'PROXY_TUNNEL_ESTABLISHED_RESPONSE_PKT' else 'other'
        cs.append(_wf(raw, ctx))
        if ctx == 'other':
            cs += [_wf(d, ctx) for d in damage_all(raw)]
    cs.append(_wf(b'HTTP/1.1 200 OK\r\nTransfer-Encoding: chunked\r\n\r\n5\r\nhello\r\n0\r\n\r\n'))
    cs.append(_wf(b'HTTP/1.1 200 OK\r\nTransfer-Encoding: chunked\r\n\r\n5;x=y\r\nhello\r\nA\r\n0123456789\r\n0\r\nT: v\r\n\r\n'))
    cs.append(_wf(b'HTTP/1.1 200 OK\r\nTransfer-Encoding: chunked\r\n\r\n5\r\nhello\r\n0\r\n'))
    cs.append(_wf(b'HTTP/1.1 200 OK\r\nTransfer-Encoding: chunked\r\n\r\n5\r\nhell\r\n0\r\n\r\n'))
    cs.append(_wf(b'HTTP/1.1 200 OK\r\nTransfer-Encoding: chunked\r\n\r\nzz\r\nhello\r\n0\r\n\r\n'))
    cs.append(_wf(b'HTTP/1.1 200 OK\r\nContent-Length: 2\r\nContent-Length: 3\r\n\r\nabc'))
    cs.append(_wf(b'HTTP/1.1 200 OK\r\nContent-Length: 3\r\nContent-Length: 3\r\n\r\nabc'))
    cs.append(_wf(b'HTTP/1.1 200 OK\r\n\r\n', 'connect'))
    cs.append(_wf(b'HTTP/1.1 200 OK\r\nConnection: keep-alive, Close\r\n\r\nbody until close'))
    cs.append(_wf(b'HTTP/1.1 204 No Content\r\n\r\n'))
    cs.append(_wf(b'HTTP/1.1 304 Not Modified\r\nContent-Length: 10\r\n\r\n'))
    return cs


def damage_all(raw):
    """clear-cut damage: both an RFC grammar check and h11 must refuse the result"""
    head, sep, body = raw.partition(b'\r\n\r\n')
    lines = head.split(b'\r\n')
    out = []
    out.append(raw[:len(head) + 2])                                   # header section not terminated
    out.append(raw[:-1] if not body else raw[:-1])                     # last byte missing
    out.append(b'HTTX/1.1' + raw[8:])                                  # not an HTTP version
    out.append(raw[:9] + b'4x0' + raw[12:])                            # status code not 3DIGIT
    out.append(lines[0] + b'\r\nNoColonHere\r\n' + b'\r\n'.join(lines[1:]) + sep + body)
    out.append(lines[0] + b'\r\nBad Name: v\r\n' + b'\r\n'.join(lines[1:]) + sep + body)
    code = raw[9:12]
    bodyless = code[:1] == b'1' or code in (b'204', b'304')      # h11 ignores Content-Length there
    if b'Content-Length: 0' in head and not bodyless:
        out.append(raw.replace(b'Content-Length: 0', b'Content-Length: 7', 1))        # announces more than is sent
        out.append(raw + b'surplus')                                                   # sends more than announced
        out.append(raw.replace(b'Content-Length: 0', b'Content-Length: zero', 1))
        out.append(raw.replace(b'Content-Length: 0', b'Content-Length: -0', 1))
    return out


MUT_LEN = [b'99999999999999999999', b'-1', b'+3', b'3_0', b'0x10', b'abc', b'', b' 7 ', b'9' * 4301, b'1e3', b'3.0']
SCHEMES = [b'ftp', b'gopher', b'ws', b'file', b'HTTP', b'httpx', b'', b'h\xfftp']
VERSIONS = [b'HTTP/2.0', b'HTTP/1.2', b'http/1.1', b'HTTP/0.9', b'HTTP', b'', b'HTTP/1.1 ', b'\xff']
BADMETHODS = [b'BREW', b'get', b'G\xffT', b'', b'CONNECTX', b'connect', b'M-SEARCH']


def gen_stream(rng):
    """one client byte string and a note of its family"""
    r = rng.random()
    if r < 0.30:
        method = rng.choice([None, None, b'CONNECT', b'GET', b'POST'])
        m = G.gen_request(rng, maxbody=rng.choice([5, 40, 200]), ext=rng.random() < 0.2, method=method)
        raw = m['raw']
        if rng.random() < 0.3:
            raw += rng.choice([b'X', b'\r\n', b'GET http://h/ HTTP/1.1\r\n\r\n', b'\x16\x03\x01\x00', b'0\r\n\r\n'])
        return raw, 'grammar'
    if r < 0.60:
        m = G.gen_request(rng, maxbody=rng.choice([5, 40]), ext=rng.random() < 0.2,
                          method=rng.choice([None, b'CONNECT', b'GET', b'POST']))
        raw = m['raw']
        for _ in range(rng.choice([1, 1, 2, 3, 6])):
            raw = G.mutate(rng, raw)
        return raw, 'mutated'
    if r < 0.70:
        n = rng.choice([1, 2, 3, 8, 20, 60])
        return bytes(rng.choice(b'GET POST/ HTP1.\r\n\r\n:0123456789abcdefx \xff\x00-_+') for _ in range(n)) or b'\x00', 'random'
    if r < 0.78:
        n = rng.choice([1, 4, 16, 64])
        return bytes(rng.randrange(256) for _ in range(n)), 'random'
    target = rng.choice([b'http://h/', b'http://h:8080/p', b'/', b'/p?q', b'h:443'])
    method = b'CONNECT' if target == b'h:443' else rng.choice([b'GET', b'POST', b'PUT'])
    if r < 0.86:
        v = rng.choice(MUT_LEN)
        name = rng.choice([b'Content-Length', b'content-length', b'CONTENT-LENGTH'])
        hs = name + b': ' + v + b'\r\n'
        if rng.random() < 0.4:
            hs += name + b': ' + rng.choice(MUT_LEN + [b'0', b'3', b'5']) + b'\r\n'
        if rng.random() < 0.2:
            hs += b'Transfer-Encoding: chunked\r\n'
        return method + b' ' + target + b' HTTP/1.1\r\n' + hs + b'\r\n' + rng.choice([b'', b'abc', b'abcde', b'3\r\nabc\r\n0\r\n\r\n']), 'lengths'
    if r < 0.91:
        sz = rng.choice([b'-1', b'-0', b'+3', b'0x3', b'3_0', b'zz', b'', b' 3', b'3 ', b'ffffffffffffffffffff', b'3;x', b'3 ;x', b'-1;x'])
        return (method + b' ' + target + b' HTTP/1.1\r\nTransfer-Encoding: ' + rng.choice([b'chunked', b'Chunked', b'gzip, chunked', b'chunked ']) +
                b'\r\n\r\n' + sz + b'\r\n' + rng.choice([b'abc\r\n0\r\n\r\n', b'X', b'', b'abc'])), 'chunksizes'
    if r < 0.95:
        s = rng.choice(SCHEMES)
        t = s + b'://' + rng.choice([b'h', b'h:80', b'[::1]:80', b'h\xff', b'u:p@h', b'']) + rng.choice([b'/', b'', b'/x y'])
        return rng.choice([b'GET', b'CONNECT', b'POST']) + b' ' + t + b' HTTP/1.1\r\nHost: h\r\n\r\n', 'schemes'
    if r < 0.98:
        return rng.choice(BADMETHODS) + b' ' + target + b' ' + rng.choice(VERSIONS + [b'HTTP/1.1']) + b'\r\n\r\n', 'methods-versions'
    return rng.choice([HANG1, HANG2, HANG1.replace(b'http://h', b''), HANG2.replace(b'http://h', b'')]) + rng.choice([b'', b'Y', b'\r\n']), 'former-hang'


def gen_builder(rng):
    names = [b'Server', b'X-A', b'Content-Type', b'Content-Length', b'content-length', b'Connection', b'connection',
             b'Transfer-Encoding', b'Cache-Control', b'Bad Name', b'', b'X\r\nY', b'Location', b'x~tok!', b'Content-Encoding']
    vals = [b'', b'x', b'text/plain; charset=utf-8', b'0', b'17', b'close', b'keep-alive', b'chunked', b'a\r\nb: c', b'a\nb',
            b' padded ', b'\xc3\xa9', b'tab\there', b'\x00', b'gzip']
    reasons = [None, b'', b'OK', b'Not Found', b'I\'m a tea pot', b'A  B', b'X\r\nY: z', b'caf\xc3\xa9', b'\x7f']
    bodies = [None, b'', b'a', b'hello world', b'\r\n\r\n', bytes(range(256)), b'x' * 300]

    def hdrs():
        if rng.random() < 0.2:
            return None
        ks = rng.sample(names, rng.randrange(0, 4))
        if rng.random() < 0.75:
            ks = [k for k in ks if is_token(k) and k.lower() not in (b'transfer-encoding', b'content-length')]
        return [(k, rng.choice(vals if rng.random() < 0.3 else [v for v in vals if field_ok(v)])) for k in ks]
    r = rng.random()
    if r < 0.45:
        status = rng.choice([200, 200, 201, 204, 301, 304, 400, 404, 418, 500, 502, 100, 101, 199, 999, 1000, 99, 0, -1])
        reason = rng.choice(reasons if rng.random() < 0.3 else [x for x in reasons if x is None or field_ok(x)])
        ctx = 'connect' if rng.random() < 0.1 else 'other'
        return _mk(status, rng.choice([b'HTTP/1.1', b'HTTP/1.1', b'HTTP/1.0', b'HTTP/2', b'']), reason, hdrs(),
                   rng.choice(bodies), rng.randrange(2), rng.randrange(2), ctx)
    if r < 0.70:
        content = rng.choice(bodies + [b'y' * rng.choice([19, 20, 21, 22, 64])])
        return _ok(content, hdrs(), rng.randrange(2), rng.choice([20, 20, 0, -1, 5, 1000]),
                   rng.choice([b'HTTP/1.1', b'HTTP/1.0']), rng.randrange(2), rng.choice([0, 0, 0, 1]))
    if r < 0.80:
        loc = rng.choice([b'/', b'/dashboard/', b'http://proxy.py/a?b=c', b'', b'/x y', b'/\xc3\xa9', b'/a\r\nSet-Cookie: x=1',
                          b'/a\nb', b'/\x00'])
        return {'kind': rng.choice(['r308', 'r303']), 'loc': loc.hex()}
    if r < 0.93:
        return _rej(rng.choice([None, 0, 400, 403, 418, 451, 500, 204, 99, 1000]),
                    rng.choice(reasons if rng.random() < 0.3 else [x for x in reasons if x is None or field_ok(x)]),
                    hdrs(), rng.choice(bodies))
    acc = rng.choice([b's3pPLMBiTxaQ9kYGzzhZRbK+xOo=', b'', b'abc', b'a\r\nb', bytes(rng.randrange(33, 127) for _ in range(28))])
    return {'kind': 'wshs', 'accept': acc.hex()}


def generate(rng, tier):
    big = tier == 'thorough'
    for _ in range(9000 if big else 900):
        raw, fam = gen_stream(rng)
        if not raw:
            continue
        web = rng.choice([0, 0, 1, 1, 2])
        plan = rng.choice(['ok', 'ok', 'refuse', 'refuse', 'gaierror', 'timeout'])
        if fam == 'grammar' and rng.random() < 0.15:
            # a follow-up after a complete first request (goes to the plugin's on_client_data)
            raw = b'GET http://h/ HTTP/1.1\r\n\r\n' + raw
        nseg = 3 if big else 2
        ppflag = 1 if rng.random() < 0.08 else 0       # ordinary traffic at a listener that expects PROXY
        for segs in segmentations(rng, raw, nseg):
            c = _run(segs, web, plan, ppflag)
            c['fam'] = fam
            yield c
        if len(raw) <= (120 if big else 60) and rng.random() < (0.3 if big else 0.15):
            c = _run([bytes([x]) for x in raw], web, plan, ppflag)
            c['fam'] = fam
            yield c
    for _ in range(4000 if big else 400):
        raw = pp_stream(rng)
        web = rng.choice([0, 0, 1, 2])
        plan = rng.choice(['ok', 'refuse'])
        for segs in segmentations(rng, raw, 3 if big else 2):
            c = _run(segs, web, plan, 1)
            c['fam'] = 'proxy-protocol'
            yield c
        if len(raw) <= 100 and rng.random() < 0.2:
            c = _run([bytes([x]) for x in raw], web, plan, 1)
            c['fam'] = 'proxy-protocol'
            yield c
    yield from flush_cases(rng, 4000 if big else 500)
    for _ in range(12000 if big else 1500):
        c = gen_builder(rng)
        yield c
        # WF_response vs h11 on what the in-guard calls produce
        if in_guard(c) and c['kind'] != 'wshs' and rng.random() < 0.5:
            try:
                r = build(c)
            except Exception:
                r = None
            if r and _wf_comparable(r):
                yield _wf(r, c.get('ctx', 'other'))
                if rng.random() < 0.3 and c.get('ctx', 'other') == 'other':
                    yield _wf(rng.choice(damage_all(r)))


def _wf_comparable(r):
    """responses on which h11 and the RFC grammar are expected to give the same verdict
    (h11 treats 1xx as interim and is laxer on control bytes)"""
    try:
        code = int(r[9:12])
    except ValueError:
        return False
    return code >= 200


def neighbours(case):
    if case['kind'] != 'run':
        return
    raw = b''.join(bytes.fromhex(s) for s in case['segs'])
    if len(raw) > 300:
        return
    for web in (0, 1, 2):
        for plan in ('ok', 'refuse'):
            yield dict(case, web=web, plan=plan, segs=[raw.hex()])
    for i in range(1, len(raw), max(1, len(raw) // 6)):
        yield dict(case, segs=[raw[:i].hex(), raw[i:].hex()])


def search(rng):
    return [c for c in generate(rng, 'quick') if c['kind'] != 'wf'][:1500]


def describe(case):
    if case['kind'] == 'flush':
        return ['flush responses=%d closing=%d' % (case['expect'], case['closing']), 'flush inter=%d' % case['inter']]
    if case['kind'] != 'run':
        return [case['kind'] + ' in-guard=%d' % in_guard(case)] if case['kind'] != 'wf' else ['wf']
    return ['run fam=%s' % case.get('fam', 'fixed'), 'run web=%d plan=%s pp=%d' % (case['web'], case['plan'], case.get('pp', 0)),
            'run pieces=%d' % min(len(case['segs']), 5)]


def nontrivial(case):
    if case['kind'] in ('run', 'flush'):
        return True
    return case['kind'] != 'wf' and in_guard(case)


_warm()
