import PxModel.Parser
import PxModel.ProxyProtocol
import PxModel.Generated
/-
  Handler-level model of the first-request phase of a client connection:
  proxy/http/handler.py  HttpProtocolHandler.handle_data / _parse_first_request /
  _discover_plugin_klass, proxy/http/parser/parser.py  http_handler_protocol,
  proxy/core/base/tcp_server.py  BaseTcpServerHandler.handle_readables / get_events
  (the part that turns handle_data's return value into "flush, then close" and
  drops read interest).

  Plugins are abstracted: the list `flags.plugins[b'HttpProtocolHandlerPlugin']`
  is a parameter (each class by its `protocols()`; a plugin is named by its index),
  and what the selected plugin's `on_request_complete` / `on_client_data` do —
  what they queue for the client, and whether they return, raise an
  `HttpProtocolException` subclass (with that exception's `response(request)`) or
  let some other exception escape — is a function parameter.
-/
namespace Px.First

open Px.Parser (Parser)

/-- `httpProtocols` -/
inductive Proto | unknown | webServer | httpProxy | socksProxy
  deriving DecidableEq, Repr

def Proto.num : Proto → Nat
  | .unknown => Px.Gen.proto_UNKNOWN | .webServer => Px.Gen.proto_WEB_SERVER
  | .httpProxy => Px.Gen.proto_HTTP_PROXY | .socksProxy => Px.Gen.proto_SOCKS_PROXY

/-- `HttpParser.http_handler_protocol` -/
def handlerProtocol (p : Parser) : Proto :=
  if (p.version == some Px.Gen.http11 || p.version == some Px.Gen.http10) && p.url.isSome then
    if p.host.isSome then .httpProxy
    else if (p.url.bind (·.hostname)).isNone then .webServer
    else .unknown
  else .unknown

/-- what a plugin hook did: the byte strings it queued for the client, and how it ended -/
inductive PluginRes
  | ret (queued : List Bytes) (teardown : Bool)       -- returned (`bool`, or an SSLSocket = False)
  | raise (queued : List Bytes) (resp : Option Bytes)  -- HttpProtocolException subclass; `e.response(request)`
  | crash (queued : List Bytes)                        -- any other exception (violates the plugin contract)
  deriving DecidableEq, Repr

structure Cfg where
  pcfg : Px.Parser.Cfg := {}
  /-- `flags.enable_proxy_protocol` (`--enable-proxy-protocol`): a PROXY v1 line precedes the request -/
  proxyProtocol : Bool := false
  /-- `flags.plugins[b'HttpProtocolHandlerPlugin']`: `protocols()` of each class, in order -/
  plugins : List (List Nat) := []
  /-- `plugin.on_request_complete()` of plugin `pid` on the completed request -/
  onComplete : Nat → Parser → PluginRes := fun _ _ => .ret [] false
  /-- `plugin.on_client_data(data)`: plugin, number of the call, data -/
  onClientData : Nat → Nat → Bytes → PluginRes := fun _ _ _ => .ret [] false
  /-- `BAD_REQUEST_RESPONSE_PKT` -/
  badRequest : Bytes := Px.Gen.pkt_BAD_REQUEST_RESPONSE_PKT

/-- The head of `HttpWebServerPlugin.on_request_complete` (eb09b1e): a request path that is
    not valid UTF-8 (`(self.request.path or b'/').decode('utf-8')` raises) gets the canned 400
    queued and `True` (teardown) returned before any routing; everything else (`inner`) stays
    abstract.  `webPid` = index of the web server plugin among the handler plugins. -/
def webGuard (badRequest : Bytes) (webPid : Nat) (inner : Nat → Parser → PluginRes) : Nat → Parser → PluginRes :=
  fun pid rq =>
    let path := match rq.path with
      | some x => if x.isEmpty then [SLASH] else x
      | none => [SLASH]
    if pid == webPid && !Px.Url.utf8Valid path then .ret [badRequest] true else inner pid rq

/-- `_discover_plugin_klass(protocol)`: first class whose `protocols()` contains it -/
def discoverAux (protocol : Nat) : Nat → List (List Nat) → Option Nat
  | _, [] => none
  | i, ps :: rest => if ps.contains protocol then some i else discoverAux protocol (i + 1) rest

def discover (plugins : List (List Nat)) (protocol : Nat) : Option Nat := discoverAux protocol 0 plugins

structure St where
  request : Parser := Px.Parser.init .request
  plugin : Option Nat := none
  /-- `work.buffer`: what is queued for the client and not yet flushed -/
  buffer : List Bytes := []
  /-- `must_flush_before_shutdown` -/
  mustFlush : Bool := false
  /-- `handle_events` returned True: the executor closes the connection -/
  teardown : Bool := false
  /-- an exception left `handle_events` (the executor tears the work down) -/
  escaped : Bool := false
  /-- number of `on_client_data` calls so far -/
  calls : Nat := 0
  /-- `request.protocol` once its line was parsed (`none`: flag off, or line still pending) -/
  pp : Option Px.PP.PP := none
  deriving DecidableEq, Repr

inductive Why
  | parse (e : Px.PP.PErr)         -- request.parse raised (any exception)
  | unknownProtocol                -- http_handler_protocol == UNKNOWN
  | noPlugin (proto : Proto)       -- no enabled plugin handles the protocol
  | pluginRaised (pid : Nat)       -- the selected plugin raised an HttpProtocolException
  deriving DecidableEq, Repr

inductive Outcome
  | wait                                        -- request incomplete: keep reading
  | served (pid : Nat) (teardown : Bool)        -- plugin selected, on_request_complete returned
  | reject (why : Why) (queued : List Bytes)    -- handle_data returns True; `queued` = what the handler itself queued
  | data (pid : Nat)                            -- after the first request: handed to plugin.on_client_data
  | ignored                                     -- after the first request, no plugin
  | escaped (pid : Nat)                         -- plugin code let a non-protocol exception escape
  deriving DecidableEq, Repr

/-- `if response: self.work.queue(response)` of `handle_data`'s except-arm -/
def respQueue : Option Bytes → List Bytes
  | some r => if r.isEmpty then [] else [r]
  | none => []

/-- the outcome of a plugin hook as `handle_data` sees it -/
def afterPlugin (st : St) (pid : Nat) (res : PluginRes) (okOutcome : Bool → Outcome) (okRet : Bool → Bool) :
    St × Outcome × Bool :=
  match res with
  | .ret q td => ({ st with buffer := st.buffer ++ q }, okOutcome td, okRet td)
  | .raise q resp =>
    -- except HttpProtocolException as e: response = e.response(self.request); if response: queue; return True
    ({ st with buffer := st.buffer ++ q ++ respQueue resp }, .reject (.pluginRaised pid) (respQueue resp), true)
  | .crash q => ({ st with buffer := st.buffer ++ q, escaped := true }, .escaped pid, false)

/-- `self.request.buffer` when truthy: bytes received after the end of the first request -/
def leftover (rq : Parser) : Option Bytes :=
  match rq.buffer with
  | some x => if x.isEmpty then none else some x
  | none => none

/-- `self.request.parse(data)`: the request parser after the call (with the flag on, the PROXY
    line is consumed first) -/
def reqParse (cfg : Cfg) (st : St) (data : Bytes) : Except Px.PP.PErr Parser :=
  match Px.PP.parseWith cfg.pcfg cfg.proxyProtocol st.pp st.request data with
  | .ok r => .ok r.1
  | .error e => .error e

/-- `self.request.protocol` after that call -/
def ppNext (cfg : Cfg) (st : St) (data : Bytes) : Option Px.PP.PP :=
  match Px.PP.parseWith cfg.pcfg cfg.proxyProtocol st.pp st.request data with
  | .ok r => r.2
  | .error _ => st.pp

/-- `_parse_first_request(data)` together with the `except HttpProtocolException` arm of
    `handle_data` that catches what it raises.  Third component: `handle_data`'s return value. -/
def parseFirst (cfg : Cfg) (st : St) (data : Bytes) : St × Outcome × Bool :=
  match reqParse cfg st data with
  | .error e =>
    -- `except HttpProtocolException` / `except Exception`: queue BAD_REQUEST, raise a (base)
    -- HttpProtocolException; its response() is None, so handle_data queues nothing more
    ({ st with buffer := st.buffer ++ [cfg.badRequest] }, .reject (.parse e) [cfg.badRequest], true)
  | .ok rq =>
    let st := { st with request := rq, pp := ppNext cfg st data }
    if rq.state != .complete then (st, .wait, false)
    else
      let proto := handlerProtocol rq
      if proto == .unknown then
        ({ st with buffer := st.buffer ++ [cfg.badRequest] }, .reject .unknownProtocol [cfg.badRequest], true)
      else match discover cfg.plugins proto.num with
        | none =>
          ({ st with buffer := st.buffer ++ [cfg.badRequest] }, .reject (.noPlugin proto) [cfg.badRequest], true)
        | some pid =>
          let st := { st with plugin := some pid }
          match cfg.onComplete pid rq, leftover rq with
          | .ret q false, some rem =>
            -- `if output is False and self.request.buffer:` the bytes that followed the first request in
            -- the same segment are taken out of the parser and handed to plugin.on_client_data; what that
            -- raises is caught by handle_data's except-arm like any other on_client_data call
            afterPlugin { st with request := { rq with buffer := none }, buffer := st.buffer ++ q,
                                  calls := st.calls + 1 } pid
              (cfg.onClientData pid st.calls rem) (fun _ => .served pid false) (fun _ => false)
          | res, _ => afterPlugin st pid res (fun td => .served pid td) (fun td => td)

/-- `handle_data(data)` for `data is not None` -/
def handleData (cfg : Cfg) (st : St) (data : Bytes) : St × Outcome × Bool :=
  if st.request.state != .complete then parseFirst cfg st data
  else match st.plugin with
    | some pid =>
      afterPlugin { st with calls := st.calls + 1 } pid (cfg.onClientData pid st.calls data)
        (fun _ => .data pid) (fun _ => false)
    | none => (st, .ignored, false)

/-- `BaseTcpServerHandler.get_events`: is EVENT_READ requested for the client socket -/
def readInterest (st : St) : Bool := !st.mustFlush

/-- `handle_events(R = [client], W = [])` when `recv` yields `data`:
    `BaseTcpServerHandler.handle_readables` turns a True from `handle_data` into
    `must_flush_before_shutdown` (output pending) or an immediate teardown. -/
def tick (cfg : Cfg) (st : St) (data : Bytes) : St × Outcome :=
  match handleData cfg st data with
  | (st, o, r) =>
    if st.escaped then (st, o)
    else if r then
      (if !st.buffer.isEmpty then ({ st with mustFlush := true }, o) else ({ st with teardown := true }, o))
    else (st, o)

/-- is the connection still being read: not closed by the executor and read interest registered -/
def reading (st : St) : Bool := !st.teardown && !st.escaped && readInterest st

/-- one more segment arrives from the client: it is consumed only while the
    connection is being read (`none` = the segment is never read) -/
def feed (cfg : Cfg) (st : St) (data : Bytes) : St × Option Outcome :=
  if reading st then
    match tick cfg st data with
    | (st, o) => (st, some o)
  else (st, none)

/-- a whole client byte stream, segment by segment -/
def run (cfg : Cfg) : St → List Bytes → St × List (Option Outcome)
  | st, [] => (st, [])
  | st, x :: xs =>
    match feed cfg st x with
    | (st, o) =>
      match run cfg st xs with
      | (st, os) => (st, o :: os)

end Px.First
