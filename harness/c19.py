"""C19 — the proxy listens where configured, reports its ports truthfully and shuts
down cleanly: correspondence of PxModel/Listen.lean with the REAL `proxy.Proxy`
(started and stopped for every case) and the property oracle.

A case is a listening configuration.  Fixed ports are symbolic (`'a'`, `'b'`, …:
equal letters = equal port; `'default'` = DEFAULT_PORT) and are resolved to free
ports outside the kernel's ephemeral range when the case runs; `0` = OS-assigned.
What the kernel / CPython decide (assigned ports, iteration order of the address
set, pid) is *observed* on the run and handed to the model as its environment
(`assign`, `hs`, `pid`); the model then has to reproduce pool, write-back, files.

Restart sequences (`restart: 1`): start, serve (every probe reads the answer until the
proxy itself closes, so FIN_WAIT/TIME_WAIT sockets stay on the listening ports), stop,
then START AGAIN with the very same fixed ports, unix path and port/pid file paths; one
line per start, the oracle judges both.  `kind: sockops` cases run one real
TcpSocketListener / UnixSocketListener on a recording socket class and compare the order
of its socket calls with the model's (`SO_REUSEADDR` before `bind`).

Each start/stop of the proxy costs 1–2 s (child processes), so the cases of a run
are observed once, in a private pool of non-daemonic worker processes (a daemonic
`multiprocessing.Pool` worker may not have children, hence NO_FORK for the engine),
and `impl` / `model_lines` / `oracle` all read that one observation.
"""
import os
import json
import time
import errno
import shutil
import signal
import socket
import struct
import logging
import tempfile
import threading
import itertools
import multiprocessing

PROPERTY = 'C19'
LEAN_TARGETS = ['PxProofs.C19']
THEOREMS = [
    'Px.Listen.C19_report', 'Px.Listen.C19_unix', 'Px.Listen.C19_multi_host',
    'Px.Listen.C19_files_gone', 'Px.Listen.C19_starts', 'Px.Listen.C19_duplicate_fixed_fails',
    'Px.Listen.C19_unix_unused_port_reported', 'Px.Listen.C19_quantifier_needed',
    'Px.Listen.C19_reuseaddr_before_bind', 'Px.Listen.C19_restart_binds',
]
NO_FORK = True
RULE = ('one case = one listening configuration (mode, workers, unix socket, hostname/hostnames, --port, --ports, '
        'port/pid file) started and stopped once with the real proxy.Proxy; thorough = the whole grid '
        '{3 modes} x {unix} x {6 address sets} x {--port 0/fixed} x {--ports: all 0/fixed lists of length 0..3} '
        'restricted to the quantifier, plus configurations outside it (duplicates, port 0 on several addresses), '
        'plus restart sequences (start, serve until the proxy closes every probed connection, stop, start again '
        'with the same fixed ports / unix path / port and pid file paths; both starts judged) in each mode, plus the '
        'recorded order of the socket calls of a single TCP / unix listener; '
        'quick = corpus + seeded sample of that grid; distinct by canonical JSON; non-trivial = inside the '
        'quantifier with pairwise distinct fixed ports')
ASSUMPTIONS = [
    'listening addresses are distinct non-wildcard loopback addresses (127.0.0.1, 127.0.0.2, 127.0.0.3, ::1)',
    'fixed ports are free when the proxy starts (chosen outside the ephemeral range and probed) and the unix path is fresh',
    'kernel contract for bind(addr, 0): the port handed out is non-zero and not bound on that address '
    '(hypothesis KernelFresh of the theorems; evaluated by the model on every observed run: kf=1)',
    '"every endpoint accepts", "after shutdown none accepts" and "no child process remains" are runtime facts: '
    'checked by the oracle on the live implementation for the configurations run, not proved (partial)',
    '--port-file and --pid-file are two different paths',
]
EXHAUSTIVE = {}
EXPLANATION = ('proved on the model: report/port file = bound ports with the primary first, unix case, every '
               '(address, port) pair gets a listener, files absent after shutdown; observed on the implementation: '
               'endpoints accept / refuse, process table')

HOST_ID = {'127.0.0.1': 1, '127.0.0.2': 2, '127.0.0.3': 3, '::1': 6}
MODES = {
    'threaded': ['--threaded'],
    'local': ['--threadless'],
    'remote': ['--threadless', '--local-executor', '0'],
}
PROBE_TIMEOUT = 12.0
OBS_TIMEOUT = 45

_CACHE = {}      # canonical case -> observation
_PENDING = []    # cases announced by corpus()/generate(), observed in one parallel batch


def _key(case):
    return json.dumps(case, sort_keys=True)


# ------------------------------------------------------------------ helpers

def _hosts(case):
    """the address set, first-mention order (the real iteration order is observed)"""
    out = []
    for h in [case['hostname']] + list(case['hostnames']):
        if h not in out:
            out.append(h)
    return out


def _tcp_req(case):
    """requested TCP ports (symbolic) in creation order for one address"""
    return list(case['ports']) if case['unix'] else [_port_tok(case)] + list(case['ports'])


def _port_tok(case):
    return 'default' if case['port'] is None else case['port']


def _is_ops(case):
    return case.get('kind') == 'sockops'


def in_quantifier(case):
    if _is_ops(case):
        return True
    return (0 not in _tcp_req(case)) or len(_hosts(case)) == 1


def _fixed_distinct(case):
    if _is_ops(case):
        return True
    fx = [p for p in _tcp_req(case) if p != 0]
    return len(fx) == len(set(fx))


def nontrivial(case):
    return in_quantifier(case) and _fixed_distinct(case)


def _family(host):
    return socket.AF_INET6 if ':' in host else socket.AF_INET


_counter = itertools.count()


def _free_port(hosts, taken):
    """a port below the ephemeral range that is free on every address of the case"""
    lo, hi = 10000, 30000
    try:
        eph = int(open('/proc/sys/net/ipv4/ip_local_port_range').read().split()[0])
        hi = min(hi, eph - 1)
    except Exception:
        pass
    for _ in range(4000):
        cand = lo + (os.getpid() * 7919 + next(_counter) * 131) % (hi - lo)
        if cand in taken:
            continue
        ok = True
        for h in hosts:
            s = socket.socket(_family(h), socket.SOCK_STREAM)
            try:
                s.bind((h, cand))
            except OSError:
                ok = False
            finally:
                s.close()
            if not ok:
                break
        if ok:
            return cand
    raise RuntimeError('no free port found')


def _descendants(root):
    """live (non-zombie) descendants of `root` from the process table"""
    parent, state = {}, {}
    for p in os.listdir('/proc'):
        if not p.isdigit():
            continue
        try:
            st = open('/proc/%s/stat' % p).read()
        except OSError:
            continue
        rest = st[st.rindex(')') + 2:].split()
        parent[int(p)] = int(rest[1])
        state[int(p)] = rest[0]
    out = []
    for p in parent:
        q, hops = p, 0
        while q in parent and q != root and hops < 64:
            q = parent[q]
            hops += 1
        if q == root and p != root and state[p] not in ('Z', 'X'):
            out.append(p)
    return sorted(out)


def _my_listening():
    """(address, port) of every LISTEN socket this process holds, from /proc (kernel's view)"""
    inodes = set()
    for fd in os.listdir('/proc/self/fd'):
        try:
            l = os.readlink('/proc/self/fd/' + fd)
        except OSError:
            continue
        if l.startswith('socket:['):
            inodes.add(l[8:-1])
    out = []
    for fn, v6 in (('/proc/self/net/tcp', False), ('/proc/self/net/tcp6', True)):
        try:
            rows = open(fn).read().split('\n')[1:]
        except OSError:
            continue
        for row in rows:
            f = row.split()
            if len(f) < 10 or f[3] != '0A' or f[9] not in inodes:
                continue
            a, p = f[1].rsplit(':', 1)
            raw = bytes.fromhex(a)
            if v6:
                raw = b''.join(struct.pack('>I', struct.unpack('<I', raw[i:i + 4])[0]) for i in range(0, 16, 4))
                addr = socket.inet_ntop(socket.AF_INET6, raw)
            else:
                addr = socket.inet_ntop(socket.AF_INET, raw[::-1])
            out.append([addr, int(p, 16)])
    return sorted(out)


def _probe(family, addr):
    """'accepted' when a worker of the proxy reacts to a request on this endpoint.  The answer is read
    until the proxy closes the connection, and only then is our end closed: the proxy is the active
    closer, so a FIN_WAIT/TIME_WAIT socket stays behind on the listening address (what a restart on
    the same fixed port has to cope with)."""
    s = socket.socket(family, socket.SOCK_STREAM)
    s.settimeout(PROBE_TIMEOUT)
    got = False
    try:
        s.connect(addr)
        s.sendall(b'GET / HTTP/1.1\r\nHost: c19\r\n\r\n')
        while True:
            try:
                chunk = s.recv(65536)
            except socket.timeout:
                if got:
                    return 'accepted'      # answered but kept the connection open
                return 'timeout'
            got = True                       # a response, or EOF after the handler closed
            if not chunk:
                return 'accepted'
            s.settimeout(3.0)
    except socket.timeout:
        return 'timeout'
    except ConnectionRefusedError:
        return 'refused'
    except FileNotFoundError:
        return 'nofile'
    except OSError as e:
        return 'oserror-%s' % errno.errorcode.get(e.errno, e.errno)
    finally:
        s.close()


def _refused(family, addr):
    s = socket.socket(family, socket.SOCK_STREAM)
    s.settimeout(3.0)
    try:
        s.connect(addr)
        return 'connected'
    except ConnectionRefusedError:
        return 'refused'
    except FileNotFoundError:
        return 'nofile'
    except socket.timeout:
        return 'timeout'
    except OSError as e:
        return 'oserror-%s' % errno.errorcode.get(e.errno, e.errno)
    finally:
        s.close()


def _read(path):
    try:
        with open(path, 'rb') as f:
            return f.read().decode('latin-1')
    except OSError:
        return None


class _ObsTimeout(BaseException):
    pass


# ------------------------------------------------------------------ one observation of the real Proxy

def _observe_raw(case):
    if case.get('kind') == 'sockops':
        return _observe_sockops(case)
    from proxy.common.constants import DEFAULT_PORT
    hosts = _hosts(case)
    d = tempfile.mkdtemp(prefix='c19-')
    pmap = {'default': DEFAULT_PORT}
    for tok in [_port_tok(case)] + list(case['ports']):
        if tok != 0 and tok not in pmap:
            pmap[tok] = _free_port(hosts, set(pmap.values()))
    num = lambda tok: 0 if tok == 0 else pmap[tok]
    args = list(MODES[case['mode']]) + ['--num-workers', str(case['nw']), '--num-acceptors', str(case['nw']),
                                        '--log-level', 'CRITICAL', '--hostname', case['hostname']]
    if case['hostnames']:
        args += ['--hostnames'] + list(case['hostnames'])
    if case['port'] is not None:
        args += ['--port', str(num(case['port']))]
    if case['ports']:
        args += ['--ports'] + [str(num(t)) for t in case['ports']]
    paths = (os.path.join(d, 'px.sock'), os.path.join(d, 'port'), os.path.join(d, 'pid'))
    if case['unix']:
        args += ['--unix-socket-path', paths[0]]
    if case['pf']:
        args += ['--port-file', paths[1]]
    if case['pidf']:
        args += ['--pid-file', paths[2]]
    try:
        first = None
        if case.get('restart'):
            # start -> serve (the proxy itself closes every probed connection) -> stop -> START AGAIN with
            # the very same options: same fixed ports, same unix path, same port/pid file paths
            first = _run_once(case, args, paths, hosts, pmap)
            time.sleep(0.1)
        obs = _run_once(case, args, paths, hosts, pmap)
        if first is not None:
            obs['first'] = first
        return obs
    finally:
        shutil.rmtree(d, ignore_errors=True)


def _run_once(case, args, paths, hosts, pmap):
    from proxy.proxy import Proxy
    sock_path, port_file, pid_file = paths
    obs = {'pmap': pmap, 'mypid': os.getpid()}
    main_thread = threading.current_thread() is threading.main_thread()
    saved = {}
    if main_thread:     # Proxy.setup installs exit handlers for these; put ours back afterwards
        for s in (signal.SIGINT, signal.SIGTERM, signal.SIGHUP, signal.SIGQUIT):
            saved[s] = signal.getsignal(s)
    prev_disable = logging.root.manager.disable
    logging.disable(logging.CRITICAL)
    before_children = set(_descendants(os.getpid()))
    p = None
    started = False
    try:
        p = Proxy(args)
        try:
            p.setup()
            started = True
        except OSError as e:
            obs['status'] = 'exc ' + ('addrInUse' if e.errno == errno.EADDRINUSE else 'OSError-%s' % e.errno)
        except (IndexError, AttributeError) as e:
            obs['status'] = 'exc ' + ('indexError' if isinstance(e, IndexError) else 'attributeError')
        pool = []
        if p.listeners is not None:
            for l in p.listeners.pool:
                if type(l).__name__ == 'UnixSocketListener':
                    pool.append(['u'])
                else:
                    pool.append([str(l.hostname), l.port, l._port])
        obs['pool'] = pool
        obs['file'] = _read(port_file)
        obs['pid'] = _read(pid_file)
        obs['unix_exists'] = os.path.exists(sock_path)
        if started:
            obs['status'] = 'ok'
            obs['flags_port'] = p.flags.port
            obs['flags_ports'] = list(p.flags.ports)
            obs['listening'] = _my_listening()
            reported = ([] if case['unix'] else [p.flags.port]) + list(p.flags.ports)
            acc = []
            for h in hosts:
                for q in reported:
                    acc.append([h, q, _probe(_family(h), (h, q))])
            if case['unix']:
                acc.append(['unix', 0, _probe(socket.AF_UNIX, sock_path)])
            obs['accept'] = acc
            obs['children_during'] = len(set(_descendants(os.getpid())) - before_children)
            p.shutdown()
            started = False
            obs['pool_after'] = len(p.listeners.pool) if p.listeners is not None else 0
            obs['file_after'] = _read(port_file)
            obs['pid_after'] = _read(pid_file)
            obs['unix_after'] = os.path.exists(sock_path)
            ref = []
            for h, q, _ in acc:
                if h == 'unix':
                    ref.append(['unix', 0, _refused(socket.AF_UNIX, sock_path)])
                else:
                    ref.append([h, q, _refused(_family(h), (h, q))])
            obs['refuse'] = ref
            obs['listening_after'] = _my_listening()
            left = sorted(set(_descendants(os.getpid())) - before_children)
            t_end = time.time() + 2.0
            while left and time.time() < t_end:     # a child that is just exiting is not "remaining"
                time.sleep(0.05)
                left = sorted(set(_descendants(os.getpid())) - before_children)
            obs['children_after'] = len(left)
            obs['active_children'] = len(multiprocessing.active_children())
    finally:
        # leave nothing behind, whatever happened
        try:
            if started and p is not None:
                p.shutdown()
        except BaseException:
            pass
        try:
            if p is not None and p.listeners is not None:
                for l in list(p.listeners.pool):
                    try:
                        if l._socket is not None:
                            l._socket.close()
                    except Exception:
                        pass
                p.listeners.pool.clear()
        except BaseException:
            pass
        for c in multiprocessing.active_children():
            if c.pid not in before_children:
                try:
                    c.terminate()
                    c.join(2)
                except Exception:
                    pass
        if main_thread:
            for s, h in saved.items():
                try:
                    signal.signal(s, h)
                except Exception:
                    pass
        logging.disable(prev_disable)
        if obs.get('status') != 'ok':      # a failed start leaves its pid file / unix path: not ours to keep
            for path in paths:
                try:
                    os.remove(path)
                except OSError:
                    pass
    return obs


# ------------------------------------------------------------------ the socket calls of one listener

def _observe_sockops(case):
    """run the real TcpSocketListener / UnixSocketListener with a recording socket class and return
    the order of the calls it makes on the socket"""
    import ipaddress
    from proxy.common.flag import FlagParser
    from proxy.core.listener.tcp import TcpSocketListener
    from proxy.core.listener.unix import UnixSocketListener
    log = []
    real = socket.socket
    fam_name = {socket.AF_INET: 'inet', socket.AF_INET6: 'inet6', socket.AF_UNIX: 'unix'}

    class Rec(real):
        def __init__(self, family=-1, type=-1, proto=-1, fileno=None):
            real.__init__(self, family, type, proto, fileno)
            if fileno is None:
                log.append('socket:%s' % fam_name.get(family, str(int(family))))

        def setsockopt(self, level, opt, *val):
            if (level, opt) == (socket.SOL_SOCKET, socket.SO_REUSEADDR):
                log.append('reuseaddr=%s' % val[0])
            elif (level, opt) == (socket.IPPROTO_TCP, socket.TCP_NODELAY):
                log.append('nodelay=%s' % val[0])
            else:
                log.append('setsockopt:%d:%d' % (level, opt))
            return real.setsockopt(self, level, opt, *val)

        def bind(self, addr):
            log.append('bind:%s' % ('path' if isinstance(addr, (str, bytes)) else addr[1]))
            return real.bind(self, addr)

        def listen(self, *a):
            log.append('listen:%s' % (a[0] if a else 'default'))
            return real.listen(self, *a)

        def setblocking(self, flag):
            log.append('nonblocking' if not flag else 'blocking')
            return real.setblocking(self, flag)

        def getsockname(self):
            log.append('getsockname')
            return real.getsockname(self)

    d = tempfile.mkdtemp(prefix='c19-')
    prev_disable = logging.root.manager.disable
    logging.disable(logging.CRITICAL)
    port = 0 if case['port'] == 0 else _free_port([case['host']], set())
    obs = {'port': port}
    lst = None
    socket.socket = Rec
    try:
        args = ['--backlog', str(case['backlog']), '--log-level', 'CRITICAL']
        if case['unix']:
            args += ['--unix-socket-path', os.path.join(d, 'ops.sock')]
        flags = FlagParser.initialize(args)
        if case['unix']:
            lst = UnixSocketListener(flags=flags)
        else:
            lst = TcpSocketListener(hostname=ipaddress.ip_address(case['host']), port=port, flags=flags)
        del log[:]
        try:
            lst.setup()
            obs['status'] = 'ok'
        except OSError as e:
            obs['status'] = 'exc ' + ('addrInUse' if e.errno == errno.EADDRINUSE else 'OSError-%s' % e.errno)
        obs['ops'] = list(log)
    finally:
        socket.socket = real
        try:
            if lst is not None and lst._socket is not None:
                lst.shutdown()
        except BaseException:
            pass
        logging.disable(prev_disable)
        shutil.rmtree(d, ignore_errors=True)
    return obs


def _observe_guarded(case):
    """own timeout (the engine's SIGALRM guard may be active around us: nest inside it)"""
    def on_alarm(signum, frame):
        raise _ObsTimeout()
    try:
        old = signal.signal(signal.SIGALRM, on_alarm)
    except ValueError:
        return _observe_raw(case)
    remaining = signal.alarm(OBS_TIMEOUT)
    try:
        return _observe_raw(case)
    except _ObsTimeout:
        return {'status': 'timeout'}
    finally:
        signal.alarm(0)
        signal.signal(signal.SIGALRM, old)
        if remaining:
            signal.alarm(max(1, remaining))


def _worker(cases, out_path):
    try:
        os.setsid()
    except OSError:
        pass
    with open(out_path, 'w') as f:
        for c in cases:
            try:
                obs = _observe_guarded(c)
            except BaseException as e:      # noqa
                obs = {'status': 'harness-exc %s: %s' % (type(e).__name__, str(e)[:200])}
            f.write(json.dumps([_key(c), obs]) + '\n')
            f.flush()
    os._exit(0)


def _prefetch(cases):
    todo, seen = [], set()
    for c in cases:
        k = _key(c)
        if k not in _CACHE and k not in seen:
            seen.add(k)
            todo.append(c)
    if len(todo) < 4:
        return
    n = int(os.environ.get('VERIF_C19_PROCS', str(max(1, min(8, (os.cpu_count() or 2) // 2)))))
    n = max(1, min(n, len(todo)))
    d = tempfile.mkdtemp(prefix='c19-batch-')
    ctx = multiprocessing.get_context('fork')
    procs = []
    for i in range(n):
        path = os.path.join(d, 'w%d.jsonl' % i)
        pr = ctx.Process(target=_worker, args=(todo[i::n], path))
        pr.daemon = False
        pr.start()
        procs.append((pr, path))
    deadline = time.time() + 30 + OBS_TIMEOUT + 6.0 * (len(todo) / n)
    for pr, path in procs:
        pr.join(max(0.1, deadline - time.time()))
        if pr.is_alive():
            try:
                os.killpg(pr.pid, signal.SIGKILL)
            except Exception:
                pass
            pr.kill()
            pr.join(5)
        try:
            for line in open(path):
                try:
                    k, obs = json.loads(line)
                except ValueError:
                    continue
                _CACHE[k] = obs
        except OSError:
            pass
    shutil.rmtree(d, ignore_errors=True)


def _suspect(obs):
    """an observation that may only reflect an overloaded machine (a genuine defect shows again)"""
    st = obs.get('status', '')
    return st == 'timeout' or st.startswith('harness-exc') or st.startswith('exc OSError') \
        or any(r == 'timeout' for _, _, r in obs.get('accept', [])) \
        or ('first' in obs and _suspect(obs['first']))


def observe(case):
    k = _key(case)
    if k not in _CACHE:
        _CACHE[k] = _observe_guarded(case)
    unexpected_clash = _fixed_distinct(case) and 'exc addrInUse' in (      # lost a race for a port?
        _CACHE[k].get('status'), _CACHE[k].get('first', {}).get('status'))
    if (_suspect(_CACHE[k]) or unexpected_clash) and not _CACHE[k].get('retried'):
        obs = _observe_guarded(case)
        obs['retried'] = True
        _CACHE[k] = obs
    return _CACHE[k]


# ------------------------------------------------------------------ canonical lines

def _csv(xs):
    xs = list(xs)
    return ','.join(str(x) for x in xs) if xs else '-'


def _file_canon(text, unix):
    """port file -> canonical `a,b,c` (first line kept first unless unix; the order of the rest is a
    Python set order, compared sorted) / None when absent / `malformed:…`"""
    if text is None:
        return 'None'
    if text == '':
        return '-'
    if not text.endswith('\n'):
        return 'malformed:' + text.encode().hex()
    lines = text[:-1].split('\n')
    try:
        nums = [int(x) for x in lines]
    except ValueError:
        return 'malformed:' + text.encode().hex()
    if any(str(v) != x for v, x in zip(nums, lines)):
        return 'malformed:' + text.encode().hex()
    if unix:
        return _csv(sorted(nums))
    return _csv(nums[:1] + sorted(nums[1:]))


def _pid_canon(text):
    return 'None' if text is None else (text if text.isdigit() else 'malformed:' + text.encode().hex())


def _fs_line(case, f, pid, unix_exists):
    return 'file=%s pid=%s unix=%d' % (_file_canon(f, case['unix']), _pid_canon(pid), 1 if unix_exists else 0)


def _impl_line(case, obs):
    st = obs['status']
    q = 1 if in_quantifier(case) else 0
    if st.startswith('exc '):
        return '%s q=%d so=1 %s' % (st, q, _fs_line(case, obs['file'], obs['pid'], obs['unix_exists']))
    if st != 'ok':
        return st
    pool = ';'.join('u' if l == ['u'] else '%d:%d' % (HOST_ID[l[0]], l[2]) for l in obs['pool']) or '-'
    return 'ok q=%d so=1 kf=1 pool=%s port=%d ports=%s %s | down pool=%s %s' % (
        q, pool, obs['flags_port'], _csv(sorted(obs['flags_ports'])),
        _fs_line(case, obs['file'], obs['pid'], obs['unix_exists']),
        '-' if obs['pool_after'] == 0 else str(obs['pool_after']),
        _fs_line(case, obs['file_after'], obs['pid_after'], obs['unix_after']))


def _runs(case, obs):
    """the observed starts of a case in order (two for a restart sequence)"""
    return ([obs['first']] if case.get('restart') and 'first' in obs else []) + [obs]


def impl(case):
    obs = observe(case)
    if _is_ops(case):
        if 'ops' not in obs:
            return [obs.get('status', 'bad-observation')]
        return ['%s ops=%s' % (obs['status'], ','.join(obs['ops']) or '-')]
    if case.get('restart') and 'first' not in obs:
        return [obs.get('status', 'bad-observation')] * 2
    return [_impl_line(case, o) for o in _runs(case, obs)]


def _model_line(case, obs):
    if 'pool' not in obs:
        return 'listen bad-observation'
    pmap = obs['pmap']
    num = lambda tok: 0 if tok == 0 else pmap[tok]
    # environment: iteration order of the address set and what the kernel assigned, as observed
    hs = []
    for l in obs['pool']:
        if l != ['u'] and l[0] not in hs:
            hs.append(l[0])
    for h in sorted(_hosts(case)):
        if h not in hs:
            hs.append(h)
    assign = [(l[2] if (l != ['u'] and l[1] == 0) else 0) for l in obs['pool']]
    return 'listen %d %d %s %d %s %d %d %s %s %d' % (
        case['unix'], HOST_ID[case['hostname']], _csv(HOST_ID[h] for h in case['hostnames']),
        num(_port_tok(case)), _csv(num(t) for t in case['ports']), case['pf'], case['pidf'],
        _csv(HOST_ID[h] for h in hs), _csv(assign), obs['mypid'])


def model_lines(case):
    obs = observe(case)
    if _is_ops(case):
        fam = 'unix' if case['unix'] else ('tcp6' if ':' in case['host'] else 'tcp4')
        return ['listen ops %s %d %d' % (fam, obs.get('port', 0), case['backlog'])]
    if case.get('restart') and 'first' not in obs:
        return ['listen bad-observation'] * 2
    # a restart is, for the model, the same `setup` again after `shutdown`: nothing of the first
    # instance is left (C19_files_gone) and a lingering connection does not block the bind
    # (C19_restart_binds), so each start is modelled on its own observed environment
    return [_model_line(case, o) for o in _runs(case, obs)]


# ------------------------------------------------------------------ the property on the implementation

def oracle(case):
    if not nontrivial(case):
        return None
    obs = observe(case)
    if _is_ops(case):
        ops = obs.get('ops')
        if ops is None or obs['status'] != 'ok':
            return 'listener-setup-failed:' + obs.get('status', '?').replace(' ', '-')
        binds = [i for i, o in enumerate(ops) if o.startswith('bind:')]
        reuse = [i for i, o in enumerate(ops) if o == 'reuseaddr=1']
        if len(binds) != 1:
            return 'listener-does-not-bind-once'
        if not reuse or reuse[0] > binds[0]:
            return 'reuseaddr-not-set-before-bind'
        lis = [i for i, o in enumerate(ops) if o.startswith('listen:')]
        if len(lis) != 1 or lis[0] < binds[0]:
            return 'listen-not-after-bind'
        return None
    if case.get('restart'):
        if 'first' not in obs:
            return 'startup-failed:' + obs.get('status', '?').replace(' ', '-')
        r = _judge(case, obs['first'])
        if r:
            return r
        r = _judge(case, obs)
        return ('restart:' + r) if r else None
    return _judge(case, obs)


def _judge(case, obs):
    if obs['status'] != 'ok':
        return 'startup-failed:' + obs['status'].replace(' ', '-')
    pmap = obs['pmap']
    hosts = _hosts(case)
    req = _tcp_req(case)
    fixed_add = [pmap[t] for t in case['ports'] if t != 0]
    fp, fps = obs['flags_port'], obs['flags_ports']
    reported = ([] if case['unix'] else [fp]) + list(fps)
    listening = obs['listening']
    bound_ports = set(p for _, p in listening)
    # the report names exactly the bound TCP ports, no duplicates
    if len(reported) != len(set(reported)):
        return 'report-has-duplicates'
    if set(reported) != bound_ports:
        return 'bound-port-not-reported' if bound_ports - set(reported) else 'reported-port-not-bound'
    if 0 in reported:
        return 'port-zero-reported'
    if len(reported) != len(req):
        return 'report-size-differs-from-configuration'
    # every configured (address, port) pair is listening
    if sorted(listening) != sorted([h, p] for h in hosts for p in reported):
        return 'listening-set-differs-from-address-x-port'
    # the primary one first
    if case['unix']:
        tok = _port_tok(case)
        if fp != (0 if tok == 0 else pmap[tok]):
            return 'unix-flags-port-changed'
    else:
        tok = _port_tok(case)
        if tok != 0 and fp != pmap[tok]:
            return 'primary-port-is-not-the-configured-one'
        if tok == 0 and fp in fixed_add:
            return 'primary-port-is-an-additional-one'
    for p in fixed_add:
        if p not in fps:
            return 'fixed-additional-port-not-reported'
    # files
    if case['pf']:
        want = ''.join('%d\n' % p for p in reported)
        if obs['file'] != want:
            return 'port-file-differs-from-report'
    elif obs['file'] is not None:
        return 'port-file-written-unasked'
    if case['pidf'] and obs['pid'] != str(obs['mypid']):
        return 'pid-file-wrong'
    # every endpoint accepts
    for h, q, r in obs['accept']:
        if r != 'accepted':
            return 'endpoint-does-not-accept:' + r
    if case['unix'] and not obs['unix_exists']:
        return 'unix-socket-missing'
    # after shutdown
    for h, q, r in obs['refuse']:
        if r not in ('refused', 'nofile'):
            return 'endpoint-open-after-shutdown:' + r
    if obs['listening_after'] or obs['pool_after']:
        return 'listener-left-after-shutdown'
    if obs['file_after'] is not None:
        return 'port-file-left-after-shutdown'
    if obs['pid_after'] is not None:
        return 'pid-file-left-after-shutdown'
    if obs['unix_after']:
        return 'unix-path-left-after-shutdown'
    if obs['children_after'] or obs['active_children']:
        return 'child-process-left-after-shutdown'
    if obs['children_during'] < 1:
        return 'no-acceptor-process-while-running'
    return None


# ------------------------------------------------------------------ cases

def _case(mode='local', nw=1, unix=0, hostname='127.0.0.1', hostnames=(), port=0, ports=(), pf=1, pidf=1,
          restart=0):
    c = {'mode': mode, 'nw': nw, 'unix': unix, 'hostname': hostname, 'hostnames': list(hostnames),
         'port': port, 'ports': list(ports), 'pf': pf, 'pidf': pidf}
    if restart:
        c['restart'] = 1
    return c


def _ops_case(host='127.0.0.1', port=0, backlog=100, unix=0):
    return {'kind': 'sockops', 'host': host, 'port': port, 'backlog': backlog, 'unix': unix}


def corpus():
    cs = [
        # the pre-fix failure of 2721edd: additional ports were reported before / instead of the primary
        _case(port='a', ports=['b', 'c']),
        _case(port=0, ports=[0, 0], mode='threaded'),
        _case(port=0, ports=['b']),
        # 81e2038: unix socket + an additional port equal to the unused --port value
        _case(unix=1, port=None, ports=['default']),
        _case(unix=1, port='a', ports=['a', 0], mode='remote'),
        _case(unix=1, port=None, ports=[]),
        _case(unix=1, port=0, ports=[0, 'b', 0]),
        # several addresses, fixed ports
        _case(port='a', ports=['b', 'c'], hostnames=['127.0.0.2', '::1'], mode='remote'),
        _case(hostname='::1', port='a', ports=[], hostnames=['127.0.0.1']),
        _case(unix=1, port=None, ports=['a', 'b'], hostnames=['127.0.0.2']),
        _case(port='a', hostnames=['127.0.0.1']),            # the same address twice is one address
        _case(hostname='::1', port=0, ports=[0, 'b', 0], mode='threaded', nw=2),
        _case(port=0, ports=[], pf=0, pidf=0),
        # outside the quantifier / start-up fails: model and code must still agree
        _case(port='a', ports=['a']),
        _case(port='a', ports=['b', 'b']),
        _case(port=0, ports=['b', 0, 'b']),
        _case(unix=1, port='a', ports=['b', 'b']),
        _case(port=0, ports=[0], hostnames=['127.0.0.2']),
        # start -> serve -> stop -> start again on the same fixed ports / unix path / files, each mode
        # (a listener that sets SO_REUSEADDR only after bind() cannot come up the second time)
        _case(port='a', ports=['b'], restart=1, mode='threaded'),
        _case(port='a', ports=['b', 0], restart=1, mode='local', hostname='::1'),
        _case(port='a', ports=['b'], restart=1, mode='remote', hostnames=['127.0.0.2']),
        _case(unix=1, port=None, ports=['a'], restart=1, mode='local'),
        _case(unix=1, port=None, ports=[], restart=1, mode='threaded'),
        # order of the socket calls of one listener
        _ops_case('127.0.0.1', 0, 100), _ops_case('::1', 'a', 7), _ops_case('127.0.0.1', 'a', 100, unix=1),
    ]
    _PENDING.extend(cs)
    return cs


ADDRESS_SETS = [
    ('127.0.0.1', []), ('::1', []), ('127.0.0.1', ['127.0.0.1']),
    ('127.0.0.1', ['127.0.0.2']), ('127.0.0.1', ['::1']), ('::1', ['127.0.0.1', '127.0.0.2']),
]


def _port_lists(n_max=3):
    """all lists over {0, fixed} of length 0..n_max, fixed entries pairwise distinct letters"""
    out = []
    for n in range(n_max + 1):
        for bits in itertools.product((0, 1), repeat=n):
            out.append([('bcd'[i] if b else 0) for i, b in enumerate(bits)])
    return out


def _grid():
    for mode in ('threaded', 'local', 'remote'):
        for unix in (0, 1):
            for hostname, hostnames in ADDRESS_SETS:
                single = len(set([hostname] + hostnames)) == 1
                for port in ((0, 'a') if not unix else (None, 'a', 0)):
                    for ports in _port_lists():
                        c = _case(mode=mode, unix=unix, hostname=hostname, hostnames=hostnames, port=port, ports=ports)
                        if in_quantifier(c):
                            yield c
                        elif single:
                            raise AssertionError


def _restarts(rng, n):
    """restart sequences: at least one fixed TCP port or a unix socket path is used twice"""
    out = []
    for i in range(n):
        hostname, hostnames = rng.choice(ADDRESS_SETS)
        unix = rng.choice([0, 0, 1])
        single = len(set([hostname] + hostnames)) == 1
        k = rng.choice([0, 1, 2, 3])
        ports = ['bcd'[j] if (not single or rng.random() < 0.7) else 0 for j in range(k)]
        port = (rng.choice([None, 'a', 0]) if unix else ('a' if (not single or rng.random() < 0.8) else 0))
        out.append(_case(mode=list(MODES)[i % 3], unix=unix, hostname=hostname, hostnames=hostnames, port=port,
                         ports=ports, restart=1, nw=2 if rng.random() < 0.15 else 1))
    return out


def _ops_cases(rng, n):
    return [_ops_case(rng.choice(['127.0.0.1', '127.0.0.2', '::1']), rng.choice([0, 'a']),
                      rng.choice([1, 5, 100, 128, 1024]), unix=rng.choice([0, 0, 1])) for _ in range(n)]


def _outside(rng):
    """duplicates among the fixed ports and OS-assigned ports on several addresses"""
    hostname, hostnames = rng.choice(ADDRESS_SETS)
    unix = rng.choice([0, 0, 1])
    k = rng.choice([1, 2, 3])
    ports = [rng.choice([0, 'a', 'b', 'b']) for _ in range(k)]
    return _case(mode=rng.choice(list(MODES)), unix=unix, hostname=hostname, hostnames=hostnames,
                 port=rng.choice([0, 'a', 'a', None] if unix else [0, 'a', 'a']), ports=ports,
                 pf=rng.choice([0, 1, 1]), pidf=rng.choice([0, 1, 1]))


def generate(rng, tier):
    grid = list(_grid())
    out = []
    if tier == 'thorough':
        for c in grid:
            c = dict(c)
            c['nw'] = 2 if rng.random() < 0.2 else 1
            if rng.random() < 0.15:
                c['pf'] = rng.choice([0, 1])
                c['pidf'] = rng.choice([0, 1])
            out.append(c)
        out += [_outside(rng) for _ in range(120)]
        out += _restarts(rng, 90) + _ops_cases(rng, 40)
    else:
        for c in rng.sample(grid, 40):
            c = dict(c)
            if rng.random() < 0.15:
                c['nw'] = 2
            if rng.random() < 0.2:
                c['pf'] = rng.choice([0, 1])
                c['pidf'] = rng.choice([0, 1])
            out.append(c)
        out += [_outside(rng) for _ in range(10)]
        out += _restarts(rng, 6) + _ops_cases(rng, 6)
    _prefetch(_PENDING + out)
    del _PENDING[:]
    return out


def neighbours(case):
    if _is_ops(case):
        yield dict(case, port=0)
        yield dict(case, unix=1 - case['unix'])
        return
    if not case.get('restart'):
        yield dict(case, restart=1)
    for mode in MODES:
        if mode != case['mode']:
            yield dict(case, mode=mode)
    yield dict(case, unix=1 - case['unix'])
    yield dict(case, hostnames=[], ports=[t for t in case['ports'] if t != 0])
    yield dict(case, port='a', ports=['b', 'c'], hostnames=[])


def search(rng):
    return list(generate(rng, 'quick'))


def describe(case):
    if _is_ops(case):
        return ['kind=sockops', 'sockops unix=%d' % case['unix']]
    req = _tcp_req(case)
    return ['restart=%d' % (1 if case.get('restart') else 0), 'mode=' + case['mode'], 'unix=%d' % case['unix'], 'addresses=%d' % len(_hosts(case)),
            'tcp-ports=%d' % len(req), 'os-assigned=%d' % sum(1 for p in req if p == 0),
            'in-quantifier=%d' % in_quantifier(case), 'fixed-distinct=%d' % _fixed_distinct(case),
            'files=%d%d' % (case['pf'], case['pidf']), 'workers=%d' % case['nw']]
