import PxModel.Listen
namespace Px.Listen

def errStr : Err → String
  | .addrInUse => "addrInUse" | .indexError => "indexError" | .attributeError => "attributeError"

def parseNats (s : String) : Option (List Nat) :=
  if s == "-" then some [] else (s.splitOn ",").mapM (·.toNat?)

def natsStr (l : List Nat) : String :=
  if l.isEmpty then "-" else ",".intercalate (l.map toString)

def b01 (b : Bool) : String := if b then "1" else "0"

def listenerStr : Listener → String
  | .unix => "u"
  | .tcp h p => s!"{h}:{p}"

def poolStr (l : List Listener) : String :=
  if l.isEmpty then "-" else ";".intercalate (l.map listenerStr)

def optNatsStr : Option (List Nat) → String
  | none => "None"
  | some l => natsStr l

def optNatStr : Option Nat → String
  | none => "None"
  | some n => toString n

def fsStr (fs : Fs) : String :=
  s!"file={optNatsStr fs.portFile} pid={optNatStr fs.pidFile} unix={b01 fs.unixPath}"

/-- `listen <unix> <hostname> <hostnames|-> <port> <ports|-> <portfile> <pidfile> <hs> <assign|-> <pid>`
    → hypotheses of the theorems evaluated on this environment (`q` in the
    quantifier, `so` set order, `kf` kernel freshness), then what `setup`
    yields and what is left after `shutdown`. -/
def famStr : Fam → String
  | .inet => "inet" | .inet6 => "inet6" | .unix => "unix"

def opStr : SockOp → String
  | .socket f => s!"socket:{famStr f}"
  | .setReuseAddr => "reuseaddr=1"
  | .setNoDelay => "nodelay=1"
  | .bind p => s!"bind:{p}"
  | .bindPath => "bind:path"
  | .listen b => s!"listen:{b}"
  | .setNonBlocking => "nonblocking"
  | .getsockname => "getsockname"

/-- `listen ops <tcp4|tcp6|unix> <port> <backlog>`: the socket calls of one listener, in order -/
def drvOps (fam port backlog : String) : String :=
  match port.toNat?, backlog.toNat? with
  | some port, some backlog =>
    let ops := if fam == "unix" then unixListenOps backlog else tcpListenOps (fam == "tcp6") port backlog
    match runOps true ⟨false, false, false⟩ ops with
    | .ok _ => s!"ok ops={",".intercalate (ops.map opStr)}"
    | .error e => s!"exc {errStr e} ops={",".intercalate (ops.map opStr)}"
  | _, _ => "bad-op"

def drv (args : List String) : String :=
  match args with
  | ["ops", fam, port, backlog] => drvOps fam port backlog
  | [u, hn, hns, port, ports, pf, pidf, hs, asg, pid] =>
    match hn.toNat?, parseNats hns, port.toNat?, parseNats ports, parseNats hs, parseNats asg, pid.toNat? with
    | some hn, some hns, some port, some ports, some hs, some asg, some pid =>
      let c : Config := { unix := u == "1", hostname := hn, hostnames := hns, port := port, ports := ports,
                          portFile := pf == "1", pidFile := pidf == "1" }
      let e : Env := { hs := hs, assign := fun i => asg.getD i 0, setOrder := sortDedup, pid := pid }
      let hyp := s!"q={b01 (decide (InQuantifier c))} so={b01 (decide (SetOrder c hs))}"
      match setup c e { portFile := none, pidFile := none, unixPath := false } with
      | .failed err fs => s!"exc {errStr err} {hyp} {fsStr fs}"
      | .started st =>
        let dn := shutdown c st
        s!"ok {hyp} kf={b01 (decide (KernelFresh c e))} pool={poolStr st.pool} port={st.flagsPort} ports={natsStr st.flagsPorts} {fsStr st.fs} | down pool={poolStr dn.pool} {fsStr dn.fs}"
    | _, _, _, _, _, _, _ => "bad-op"
  | _ => "bad-op"

end Px.Listen
