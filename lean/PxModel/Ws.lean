import PxModel.Bytes
import PxModel.Generated
/-
  Model of proxy/http/websocket/frame.py (WebsocketFrame.build / parse /
  apply_mask) as of the tree with the two `fix:` commits (D5, D6).
-/
namespace Px.Ws

inductive Err | structError | indexError | assertion | valueError
  deriving DecidableEq, Repr

structure Frame where
  fin : Bool
  rsv1 : Bool
  rsv2 : Bool
  rsv3 : Bool
  opcode : Nat
  masked : Bool
  mask : Option Bytes
  data : Bytes
  deriving DecidableEq, Repr

/-- big-endian encoding of `n` in `k` bytes (`struct.pack('!H')`, `'!Q'`) -/
def beEncode : Nat → Nat → Bytes
  | 0, _ => []
  | k + 1, n => UInt8.ofNat (n / 256 ^ k % 256) :: beEncode k n

/-- `struct.unpack('!H' / '!Q')` on exactly the bytes given -/
def beDecode (x : Bytes) : Nat := x.foldl (fun acc c => acc * 256 + c.toNat) 0

/-- `apply_mask`: `raw[i] ^ mask[i % 4]` -/
def maskAux (mask : Bytes) : Nat → Bytes → Bytes
  | _, [] => []
  | i, c :: cs => (c ^^^ mask.getD (i % 4) 0) :: maskAux mask (i + 1) cs

def applyMask (data mask : Bytes) : Except Err Bytes :=
  if mask.length < min data.length 4 then .error .indexError   -- mask[i % 4] for some i < len(data)
  else .ok (maskAux mask 0 data)

def bit (c : Bool) (v : Nat) : Nat := if c then v else 0

/-- first header byte as Python computes it (`|` of the flag bits and the opcode) -/
def byte0 (f : Frame) : Nat :=
  bit f.fin 128 ||| bit f.rsv1 64 ||| bit f.rsv2 32 ||| bit f.rsv3 16 ||| f.opcode

/-- second header byte and the extended length, by the three `struct.pack` branches -/
def lenHdr (masked : Bool) (len : Nat) : Except Err Bytes :=
  let m := bit masked 128
  if len < 126 then .ok [UInt8.ofNat (m ||| len)]
  else if len < 65536 then .ok (UInt8.ofNat (m ||| 126) :: beEncode 2 len)
  else if len < 2 ^ 64 then .ok (UInt8.ofNat (m ||| 127) :: beEncode 8 len)
  else .error .valueError

/-- masking key and (masked) payload as written by `build` -/
def bodyOut (rnd : Bytes) (f : Frame) : Except Err Bytes :=
  if f.masked then
    let mask := f.mask.getD rnd
    if f.data.isEmpty then .ok mask
    else match applyMask f.data mask with
      | .error e => .error e
      | .ok md => .ok (mask ++ md)
  else .ok f.data

/-- `WebsocketFrame.build()` for a frame whose `payload_length` is still `None`
    (a freshly populated frame).  `rnd` is what `secrets.token_bytes(4)` returns. -/
def build (rnd : Bytes) (f : Frame) : Except Err Bytes :=
  if byte0 f > 255 then .error .structError
  else match lenHdr f.masked f.data.length with
    | .error e => .error e
    | .ok hdr =>
      match bodyOut rnd f with
      | .error e => .error e
      | .ok body => .ok (UInt8.ofNat (byte0 f) :: hdr ++ body)

/-- extended-length decoding (`struct.unpack('!H' | '!Q')` on a clamped slice) -/
def lenRest (l7 : Nat) (rest : Bytes) : Except Err (Nat × Bytes) :=
  if l7 == 126 then
    (if (rest.take 2).length < 2 then .error .structError
     else .ok (beDecode (rest.take 2), rest.drop 2))
  else if l7 == 127 then
    (if (rest.take 8).length < 8 then .error .structError
     else .ok (beDecode (rest.take 8), rest.drop 8))
  else .ok (l7, rest)

/-- mask / payload / remainder slicing once the length is known -/
def finish (b0 : Nat) (masked : Bool) (len : Nat) (rest : Bytes) : Except Err (Frame × Bytes) :=
  let mask := if masked then some (rest.take 4) else none
  let rest := if masked then rest.drop 4 else rest
  let data := rest.take len
  let tail := rest.drop len
  let fr (d : Bytes) : Frame :=
    { fin := (b0 &&& 128) != 0, rsv1 := (b0 &&& 64) != 0, rsv2 := (b0 &&& 32) != 0,
      rsv3 := (b0 &&& 16) != 0, opcode := b0 &&& 15, masked := masked, mask := mask, data := d }
  match mask with
  | some mk =>
    match applyMask data mk with
    | .error e => .error e
    | .ok d => .ok (fr d, tail)
  | none => .ok (fr data, tail)

/-- `WebsocketFrame.parse(raw)`: fields after the call and the returned remainder. -/
def parse (raw : Bytes) : Except Err (Frame × Bytes) :=
  match raw with
  | [] => .error .indexError
  | [_] => .error .indexError
  | c0 :: c1 :: rest =>
    let b1 := c1.toNat
    match lenRest (b1 &&& 127) rest with
    | .error e => .error e
    | .ok (len, rest) => finish c0.toNat ((b1 &&& 128) != 0) len rest

/-! ## A reused `WebsocketFrame` instance

`WebsocketFrame` is a mutable object: `parse` overwrites its fields (the mask
only when the frame is masked), remembers the DECLARED payload length in
`payload_length`, `build` uses a remembered `payload_length` instead of
`len(data)`, and `reset()` restores the constructor's values.  The web
server's websocket loop (`HttpWebServerPlugin.on_client_data`) reuses one
instance for all frames of a segment with `reset()` in between.  `Inst` is that
object; `parseSt` / `buildSt` / `Inst.reset` are its methods (success paths: an
exception ends the modelled history, as it ends the loop in `web.py`). -/
structure Inst where
  fin : Bool
  rsv1 : Bool
  rsv2 : Bool
  rsv3 : Bool
  opcode : Nat
  masked : Bool
  plen : Option Nat
  mask : Option Bytes
  data : Option Bytes
  deriving DecidableEq, Repr

/-- `WebsocketFrame()` -/
def Inst.fresh : Inst := ⟨false, false, false, false, 0, false, none, none, none⟩

/-- `reset()` -/
def Inst.reset (_ : Inst) : Inst := Inst.fresh

/-- the payload length the header declares (`self.payload_length` after `parse`) -/
def declLen (raw : Bytes) : Nat :=
  match raw with
  | _ :: c1 :: rest =>
    match lenRest (c1.toNat &&& 127) rest with
    | .ok (len, _) => len
    | .error _ => 0
  | _ => 0

/-- `parse(raw)` on an instance in state `s`: every field is overwritten except
    `mask`, which keeps its old value when the new frame is not masked. -/
def parseSt (s : Inst) (raw : Bytes) : Except Err (Inst × Bytes) :=
  match parse raw with
  | .error e => .error e
  | .ok (f, tail) =>
    .ok ({ fin := f.fin, rsv1 := f.rsv1, rsv2 := f.rsv2, rsv3 := f.rsv3, opcode := f.opcode,
           masked := f.masked, plen := some (declLen raw),
           mask := if f.masked then f.mask else s.mask, data := some f.data }, tail)

/-- the fields `build` reads, as a `Frame` (`data` of `None` counts as empty) -/
def Inst.toFrame (s : Inst) : Frame :=
  ⟨s.fin, s.rsv1, s.rsv2, s.rsv3, s.opcode, s.masked, s.mask, s.data.getD []⟩

/-- `build()` with the length field given (`payload_length` already set) -/
def buildWith (rnd : Bytes) (f : Frame) (len : Nat) : Except Err Bytes :=
  if byte0 f > 255 then .error .structError
  else match lenHdr f.masked len with
    | .error e => .error e
    | .ok hdr =>
      match bodyOut rnd f with
      | .error e => .error e
      | .ok body => .ok (UInt8.ofNat (byte0 f) :: hdr ++ body)

/-- `build()` on an instance: a remembered `payload_length` wins over `len(data)`
    and is remembered from then on. -/
def buildSt (rnd : Bytes) (s : Inst) : Except Err (Inst × Bytes) :=
  let len := s.plen.getD (s.data.getD []).length
  match buildWith rnd s.toFrame len with
  | .error e => .error e
  | .ok raw => .ok ({ s with plen := some len }, raw)

inductive LoopEnd | drained | closed | failed (e : Err) | fuel
  deriving DecidableEq, Repr

/-- The websocket loop of `HttpWebServerPlugin.on_client_data`: one instance,
    `parse` – hand the instance to the route plugin (or stop at a close frame) –
    `reset()` – until nothing remains.  Returns what the plugin was handed. -/
def webLoop : Nat → Inst → Bytes → List Inst × LoopEnd
  | 0, _, raw => ([], if raw.isEmpty then .drained else .fuel)
  | n + 1, s, raw =>
    if raw.isEmpty then ([], .drained)
    else match parseSt s raw with
      | .error e => ([], .failed e)
      | .ok (i, rest) =>
        if i.opcode == Px.Gen.wsOpClose then ([], .closed)   -- websocketOpcodes.CONNECTION_CLOSE (generated)
        else
          let r := webLoop n i.reset rest
          (i :: r.1, r.2)

/-- the loop as `on_client_data` starts it: a new instance, fuel = input length
    (proved never to run out: `C16_loop_total`) -/
def webLoopTop (raw : Bytes) : List Inst × LoopEnd := webLoop raw.length Inst.fresh raw

/-- `WebsocketFrame.text(data)`: what the server side sends (FIN, TEXT, unmasked) -/
def textFrame (data : Bytes) : Frame := ⟨true, false, false, false, Px.Gen.wsOpText, false, none, data⟩
def text (data : Bytes) : Except Err Bytes := build [] (textFrame data)

/-! An independent encoder written from the RFC 6455 §5.2 frame diagram
    (arithmetic, most significant field first), used as the specification
    in `C16_rfc`. -/
def rfcEncode (f : Frame) (key : Bytes) : Bytes :=
  let n := f.data.length
  let first : Nat := (if f.fin then 1 else 0) * 128 + (if f.rsv1 then 1 else 0) * 64 +
    (if f.rsv2 then 1 else 0) * 32 + (if f.rsv3 then 1 else 0) * 16 + f.opcode
  let mbit : Nat := if f.masked then 128 else 0
  let lenField : Bytes :=
    if n ≤ 125 then [UInt8.ofNat (mbit + n)]
    else if n ≤ 65535 then [UInt8.ofNat (mbit + 126), UInt8.ofNat (n / 256), UInt8.ofNat (n % 256)]
    else UInt8.ofNat (mbit + 127) ::
      (List.range 8).map (fun i => UInt8.ofNat (n / 256 ^ (7 - i) % 256))
  let payload : Bytes :=
    if f.masked then key ++ (f.data.zipIdx.map (fun (c, i) => c ^^^ key.getD (i % 4) 0))
    else f.data
  UInt8.ofNat first :: lenField ++ payload

end Px.Ws
