import PxProofs.PersistFwd
/-!
# C04 helper lemmas, part 5: web server and reverse proxy on a stream of requests, any packing
-/
namespace Px.Persist
open Px Px.Parser

/-- a request as data: byte counter and leftover buffer set aside -/
def norm (P : Parser) : Parser := { P with totalSize := 0, buffer := none }

theorem norm_withTotal (P : Parser) (n : Nat) (b : Option Bytes) :
    norm ({ (withTotal P n) with buffer := b }) = norm P := rfl

theorem norm_withTotal' (P : Parser) (n : Nat) : norm (withTotal P n) = norm P := rfl

theorem handed_norm (a : Reqs) (ns : List Nat) (h : ns.length = a.length) :
    (handed a ns).map norm = a.map (fun r => norm r.2) := by
  induction a generalizing ns with
  | nil => cases ns <;> simp [handed]
  | cons r a ih =>
    cases ns with
    | nil => simp at h
    | cons n ns =>
      simp only [handed, List.map_cons, List.cons.injEq]
      exact ⟨rfl, ih ns (by simpa using h)⟩

theorem wst_eta_phase (s : WSt) : ({ s with phase := s.phase } : WSt) = s := by cases s; rfl

/-! ## web server -/

def wstepL (cfg : WCfg) (s : WSt) (P : Parser) : WSt :=
  { s with out := s.out ++ [cfg.respond (s.route.getD 0) P], calls := s.calls ++ [(s.route.getD 0, P)] }

theorem web_good (cfg : WCfg) (P : Parser) (hk : isKeepAlive P = true) (s : WSt) (n : Nat) :
    (webHooks cfg).complete s (withTotal P n) = .next (wstepL cfg s (withTotal P n)) none := by
  have : isKeepAlive (withTotal P n) = true := hk
  simp only [webHooks, this, Bool.not_true, Bool.false_eq_true, if_false, wstepL]

/-- the loop touches `out` and `calls` only -/
theorem web_loop_inv (cfg : WCfg) (fuel : Nat) (s : WSt) (pl : Option Parser) (raw : Bytes) :
    (pipeLoop (webHooks cfg) fuel s pl raw).1.phase = s.phase ∧
    (pipeLoop (webHooks cfg) fuel s pl raw).1.request = s.request ∧
    (pipeLoop (webHooks cfg) fuel s pl raw).1.route = s.route := by
  induction fuel generalizing s pl raw with
  | zero => simp [pipeLoop]
  | succ f ih =>
    unfold pipeLoop
    by_cases he : raw.isEmpty = true
    · simp [he]
    · simp only [he, Bool.false_eq_true, if_false]
      have hb : (webHooks cfg).bypass s pl raw = none := rfl
      rw [hb]
      simp only
      cases hp : Px.Parser.parse Forward.pcfg (pl.getD (init .request)) raw with
      | error e => simp
      | ok p' =>
        simp only
        by_cases hc : (p'.state == PState.complete) = true
        · simp only [hc, if_true]
          by_cases hk : isKeepAlive ({ p' with buffer := none } : Parser) = true
          · have : (webHooks cfg).complete s { p' with buffer := none } =
                .next (wstepL cfg s { p' with buffer := none }) none := by
              simp only [webHooks, hk, Bool.not_true, Bool.false_eq_true, if_false, wstepL]
            rw [this]
            simp only
            cases p'.buffer with
            | none => simp [wstepL]
            | some rest =>
              simp only
              have := ih (wstepL cfg s { p' with buffer := none }) none rest
              simpa [wstepL] using this
          · have : (webHooks cfg).complete s { p' with buffer := none } =
                .stop (wstepL cfg s { p' with buffer := none }) (some { p' with buffer := none }) .close := by
              simp only [webHooks, hk, Bool.not_false, if_true, wstepL]
            rw [this]
            simp [wstepL]
        · simp [hc]

/-- a routed keep-alive connection is the loop, segment by segment -/
theorem wrun_routed (cfg : WCfg) (segs : List Bytes) (s : WSt) (pl : Option Parser) (s' : WSt) (pl' : Option Parser)
    (hph : s.phase = .routed) (hk : isKeepAlive s.request = true)
    (h : loopSegs (webHooks cfg) s pl segs = (s', pl', .ok)) : wrun cfg (s, pl) segs = (s', pl') := by
  induction segs generalizing s pl with
  | nil =>
    simp only [loopSegs, Prod.mk.injEq] at h
    obtain ⟨rfl, rfl, _⟩ := h
    rfl
  | cons x xs ih =>
    rw [loopSegs] at h
    obtain ⟨i1, i2, i3⟩ := web_loop_inv cfg (x.length + 1) s pl x
    rcases hp : pipeLoop (webHooks cfg) (x.length + 1) s pl x with ⟨s1, pl1, e⟩
    rw [hp] at h i1 i2 i3
    simp only at i1 i2 i3
    cases e with
    | close => simp at h
    | raised => simp at h
    | ok =>
      simp only at h
      have hw : wseg cfg (s, pl) x = (s1, pl1) := by
        simp only [wseg, hph, wdata, hk, Bool.not_true, Bool.false_eq_true, if_false, hp, endPhase]
      rw [wrun, hw]
      exact ih s1 pl1 (by rw [i1]; exact hph) (by rw [i2]; exact hk) h

theorem foldl_wstep (cfg : WCfg) (k : Nat) (Ps : List Parser) (s : WSt) (hr : s.route = some k) :
    Ps.foldl (wstepL cfg) s =
      { s with out := s.out ++ Ps.map (cfg.respond k), calls := s.calls ++ Ps.map (fun P => (k, P)) } := by
  induction Ps generalizing s with
  | nil => simp
  | cons P Ps ih =>
    rw [List.foldl_cons, ih (wstepL cfg s P) (by simpa [wstepL] using hr)]
    simp [wstepL, hr, List.append_assoc]

/-- the first request of a web-server connection -/
def WebFirstOk (cfg : WCfg) (x : Bytes) (P : Parser) (k : Nat) : Prop :=
  oneReq x = some P ∧ isWebRequest P = true ∧ isWebsocketUpgrade P = false ∧
  Px.Url.utf8Valid (webPath P) = true ∧ tryRoute cfg (webPath P) = some k ∧ isKeepAlive P = true

/-- follow-up requests: one request each, HTTP/1.1 keep-alive -/
def WebLaterAll (tl : Reqs) : Prop := ∀ r ∈ tl, oneReq r.1 = some r.2 ∧ isKeepAlive r.2 = true

theorem WebLaterAll.good (cfg : WCfg) {tl : Reqs} (h : WebLaterAll tl) :
    ∀ r ∈ tl, ∀ s n, True →
      (webHooks cfg).complete s (withTotal r.2 n) = .next (wstepL cfg s (withTotal r.2 n)) none ∧ True :=
  fun r hr s n _ => ⟨web_good cfg r.2 (h r hr).2 s n, trivial⟩

/-- what the web server has done after the whole stream: the handed-over requests `Ps'` are the
    one-piece parses (as data), each went to plugin `k` once, in order, and was answered in that order -/
structure WebDone (cfg : WCfg) (k : Nat) (P₁ : Parser) (tl : Reqs) (S : WSt × Option Parser) : Prop where
  routed : S.1.phase = .routed
  idle : S.2 = none
  ex : ∃ Ps' : List Parser, Ps'.map norm = (P₁ :: tl.map (·.2)).map norm ∧
    S.1.calls = Ps'.map (fun P => (k, P)) ∧ S.1.out = Ps'.map (cfg.respond k)

/-- **web server, whole stream, any packing** -/
theorem wrun_stream (cfg : WCfg) (x₁ : Bytes) (P₁ : Parser) (k : Nat) (tl : Reqs)
    (h1 : WebFirstOk cfg x₁ P₁ k) (hl : WebLaterAll tl)
    (segs : List Bytes) (hne : ∀ seg ∈ segs, seg ≠ []) (d : Bytes) (p : Parser) (hp : CanonP d p)
    (u : Bytes) (hx : x₁ = d ++ u) (hu : u ≠ []) (hflat : d ++ segs.flatten = x₁ ++ stream tl) :
    WebDone cfg k P₁ tl (wrun cfg ({ request := p }, none) segs) := by
  obtain ⟨ho, hw, hws, hutf, hr, hka⟩ := h1
  induction segs generalizing d p u with
  | nil =>
    exfalso
    simp only [List.flatten_nil, List.append_nil] at hflat
    have := congrArg List.length hflat
    rw [hx] at this
    simp only [List.length_append] at this
    have : 0 < u.length := List.length_pos_iff.mpr hu
    omega
  | cons seg segs ih =>
    have hseg : seg ≠ [] := hne seg (by simp)
    have hst : seg ++ segs.flatten = u ++ stream tl := by
      have : d ++ (seg ++ segs.flatten) = d ++ (u ++ stream tl) := by
        simp only [List.flatten_cons] at hflat
        rw [hflat, hx, List.append_assoc]
      exact List.append_cancel_left this
    have hcase : (∃ a', a' ≠ [] ∧ u = seg ++ a' ∧ segs.flatten = a' ++ stream tl) ∨
        (∃ c, seg = u ++ c ∧ stream tl = c ++ segs.flatten) := by
      rcases List.append_eq_append_iff.1 hst with ⟨a', e1, e2⟩ | ⟨c, e1, e2⟩
      · by_cases ha : a' = []
        · subst ha
          exact .inr ⟨[], by simpa using e1.symm, by simpa using e2.symm⟩
        · exact .inl ⟨a', ha, e1, e2⟩
      · exact .inr ⟨c, e1, e2⟩
    have hne' : ∀ x ∈ segs, x ≠ [] := fun x hx' => hne x (by simp [hx'])
    rcases hcase with ⟨a', ha', hu', hrest⟩ | ⟨c, hsegc, htl⟩
    · obtain ⟨p', hp', hc'⟩ := feed_within ho hp (by rw [hx, hu', List.append_assoc]) ha' hseg
      have hnc : (p'.state != PState.complete) = true := by simpa using hc'.incomplete
      have hw1 : wseg cfg ({ request := p }, none) seg = ({ request := p' }, none) := by
        simp only [wseg, hp', hnc, if_true]
      rw [wrun, hw1]
      exact ih hne' (d ++ seg) p' hc' a' (by rw [hx, hu', List.append_assoc]) ha'
        (by rw [List.append_assoc, hrest, hx, hu']; simp [List.append_assoc])
    · obtain ⟨n, p', hp', hpst, hpbuf, hclr⟩ :=
        feed_complete ho hp (show d ++ seg = x₁ ++ c by rw [hsegc, hx, List.append_assoc])
      have hnc : (p'.state != PState.complete) = false := by simp [hpst]
      have heta := parser_eta_buffer p'
      rw [hclr] at heta
      have cw : isWebRequest p' = true := by rw [heta]; exact hw
      have cws : isWebsocketUpgrade p' = false := by rw [heta]; exact hws
      have cutf : Px.Url.utf8Valid (webPath p') = true := by rw [heta]; exact hutf
      have cr : tryRoute cfg (webPath p') = some k := by rw [heta]; exact hr
      have hnorm : norm p' = norm P₁ := by rw [heta]; rfl
      -- state after the first request has been answered
      let s1 : WSt := { phase := .routed, request := withTotal P₁ n, route := some k,
                        out := [cfg.respond k p'], calls := [(k, p')] }
      by_cases hc : c = []
      · subst hc
        have hb : p'.buffer = none := by simpa using hpbuf
        have hp'eq : p' = withTotal P₁ n := by
          rw [← hclr]; cases p'; simp_all
        have hw1 : wseg cfg ({ request := p }, none) seg = (s1, none) := by
          simp only [wseg, hp', hnc, Bool.false_eq_true, if_false, cw, cws, Bool.not_true, cutf, cr, hb]
          simp [s1, hp'eq]
        obtain ⟨ns, hns, hloop⟩ := loopSegs_all (webHooks cfg) (wstepL cfg) (fun _ => True) (fun _ _ _ _ => rfl) segs
          hne' tl (fun r hr' => (hl r hr').1) (hl.good cfg) [] none ⟨.inl ⟨rfl, rfl⟩, fun _ => rfl⟩ (.inl rfl)
          (by simpa using htl.symm) s1 trivial
        rw [wrun, hw1, wrun_routed cfg segs s1 none _ none rfl hka hloop, foldl_wstep cfg k _ s1 rfl]
        refine ⟨rfl, rfl, p' :: handed tl ns, ?_, by simp [s1], by simp [s1]⟩
        simp only [List.map_cons, hnorm, List.cons.injEq, true_and, List.map_map]
        rw [handed_norm tl ns hns]; rfl
      · have hcE : c.isEmpty = false := by simpa using hc
        have hb : p'.buffer = some c := by simpa [hcE] using hpbuf
        obtain ⟨done, rs', ns, d', pl', e1, e2, e3, e4, e5, e6, _⟩ :=
          pipeLoop_stream (webHooks cfg) (wstepL cfg) (fun _ => True) (fun _ _ _ _ => rfl) tl
            (fun r hr' => (hl r hr').1) (hl.good cfg) [] c segs.flatten none
            ⟨.inl ⟨rfl, rfl⟩, fun _ => rfl⟩ (.inl rfl) hc (by simpa using htl.symm) (c.length + 1) (by omega) s1 trivial
        have hl' : WebLaterAll rs' := fun r hr' => hl r (by rw [e1]; simp [hr'])
        rw [foldl_wstep cfg k _ s1 rfl] at e3
        have hw1 : wseg cfg ({ request := p }, none) seg =
            ({ s1 with out := s1.out ++ (handed done ns).map (cfg.respond k),
                       calls := s1.calls ++ (handed done ns).map (fun P => (k, P)) }, pl') := by
          simp only [wseg, hp', hnc, Bool.false_eq_true, if_false, cw, cws, Bool.not_true, cutf, cr, hb,
            wdata, hclr]
          have hk' : isKeepAlive (withTotal P₁ n) = true := hka
          simp only [hk', Bool.not_true, Bool.false_eq_true, if_false]
          have : ({ phase := WPhase.routed, request := withTotal P₁ n, route := some k,
                    out := [] ++ [cfg.respond k p'], calls := [] ++ [(k, p')] } : WSt) = s1 := rfl
          rw [this, e3]
          simp [endPhase, s1]
        obtain ⟨ns2, hns2, hloop⟩ := loopSegs_all (webHooks cfg) (wstepL cfg) (fun _ => True) (fun _ _ _ _ => rfl) segs
          hne' rs' (fun r hr' => (hl' r hr').1) (hl'.good cfg) d' pl' e4 e5 (by simpa using e6)
          { s1 with out := s1.out ++ (handed done ns).map (cfg.respond k),
                    calls := s1.calls ++ (handed done ns).map (fun P => (k, P)) } trivial
        rw [wrun, hw1, wrun_routed cfg segs _ pl' _ none rfl hka hloop, foldl_wstep cfg k _ _ rfl]
        refine ⟨rfl, rfl, p' :: (handed done ns ++ handed rs' ns2), ?_, by simp [s1, List.append_assoc],
          by simp [s1, List.append_assoc]⟩
        simp only [List.map_cons, hnorm, List.cons.injEq, true_and, List.map_append, List.map_map]
        rw [handed_norm done ns e2, handed_norm rs' ns2 hns2, e1]
        simp
        rfl

end Px.Persist
