import PxModel.StaticPath
namespace Px.Static

def utf8Encode (s : Str) : Bytes := (String.ofList s).toUTF8.toList

def strHex (s : Str) : String := hex (utf8Encode s)
def optStrHex : Option Str → String
  | none => "None"
  | some s => strHex s

/-- the driver's stand-in for `gzip.compress` (any injective function will do:
    the harness compares the body after undoing the advertised encoding) -/
def toyGzip (x : Bytes) : Bytes := 0x1f :: 0x8b :: x
def toyGunzip (x : Bytes) : Bytes := x.drop 2

def parseEntries : List String → Option (List (Str × Bytes × Bytes))
  | [] => some []
  | p :: c :: m :: rest => do
    let p ← (← unhex p) |> utf8Decode
    let c ← unhex c
    let m ← unhex m
    let r ← parseEntries rest
    some ((p, c, m) :: r)
  | _ => none

def mkEnv (mcl : Int) (tab : List (Str × Bytes × Bytes)) : Env :=
  { fs := fun p => (tab.find? (fun e => e.1 == p)).map (fun e => e.2.1)
    mime := fun p => ((tab.find? (fun e => e.1 == p)).map (fun e => e.2.2)).getD (b "text/plain")
    gzip := toyGzip
    mcl := mcl }

def outStr : Outcome → String
  | .badRequest => "400 opened=None"
  | .notFound o => s!"404 opened={optStrHex o}"
  | .ok t r =>
    let hs := r.headers
    let cl := (hs.find? (fun kv => kv.1 == b "Content-Length")).map (·.2)
    let clok := cl == some (natToDec r.body.length)
    let enc := hs.any (fun kv => kv == (b "Content-Encoding", b "gzip"))
    let hdr := Gen.http11 ++ Gen.whitespace ++ b "200" ++ Gen.whitespace ++ b "OK" ++ Gen.crlf ++
      ((hs.filter (fun kv => kv.1 != b "Content-Length")).map headerLine).flatten
    let body := if enc then toyGunzip r.body else r.body
    s!"200 opened={strHex t} enc={if enc then "gzip" else "None"} clok={if clok then 1 else 0} hdr={hex hdr} body={hex body}"

/-- `static np <path>` — normpath;
    `static serve <enable 0|1> <dir> <request.path|None> <min_compression_length> (<file> <content> <ctype>)*`;
    `static e2e <dir> <request-target> <min_compression_length> (<file> <content> <ctype>)*` -/
def drv (args : List String) : String :=
  match args with
  | ["np", p] =>
    match (unhex p).bind utf8Decode with
    | some s => s!"ok {strHex (normpath s)}"
    | none => "bad-op"
  | "serve" :: en :: dir :: path :: mcl :: entries =>
    let path : Option (Option Bytes) := if path == "None" then some none else (unhex path).map some
    match (unhex dir).bind utf8Decode, path, mcl.toInt?, parseEntries entries with
    | some dir, some path, some mcl, some tab =>
      outStr (onRequestComplete (mkEnv mcl tab) { enableStatic := en == "1", dir := dir } path)
    | _, _, _, _ => "bad-op"
  | "e2e" :: dir :: target :: mcl :: entries =>
    match (unhex dir).bind utf8Decode, unhex target, mcl.toInt?, parseEntries entries with
    | some dir, some target, some mcl, some tab =>
      if reachesWeb target then
        outStr (onRequestComplete (mkEnv mcl tab) { enableStatic := true, dir := dir } (some target))
      else "notweb"
    | _, _, _, _ => "bad-op"
  | _ => "bad-op"

end Px.Static
