import PxModel.Relay
/-
  Driver glue for the relay model (C01, C07).

    relay flush <maxSend> <buf> <op>…          op = q<hex> | f<send>
    relay run <kind> <maxSend> <mustFlush> <readsTeared> <cbuf> <ubuf> <tick>…
    relay shut <threaded> <maxSend> <cbuf> <sel>…     sel = t | y<send>

    <buf>   `.` = empty list, else elements joined by `,` (`-` = empty element)
    <tick>  R<elapsed>,<timeout>   (reaper event, Ints in clock units)   or
            <m|r><cR><cW><uR><uW>:<cRecv>:<cSend>:<uRecv>:<uSend>:<app>
            m = masked by get_events (Relay.step), r = raw (Relay.tick)
    <recv>  d<hex> | e | r | t | o | b | w
    <send>  s<k> | b | p | o | w
    <app>   r | a/<toUp|None>/<toClient|None>/<0|1>

  Byte strings are reported as `<len>:<crc32>` so that lines stay short.
-/
namespace Px.Relay
open Px

def crcByte (crc : UInt32) (b : UInt8) : UInt32 :=
  let c := crc ^^^ b.toUInt32
  (List.range 8).foldl (fun c _ => (c >>> 1) ^^^ (0xEDB88320 &&& (0 - (c &&& 1)))) c

def crc32 (x : Bytes) : UInt32 := (x.foldl crcByte 0xFFFFFFFF) ^^^ 0xFFFFFFFF

def digest (x : Bytes) : String := s!"{x.length}:{(crc32 x).toNat}"

def bufStr (b : List Bytes) : String :=
  (if b.isEmpty then "." else ",".intercalate (b.map (fun e => toString e.length))) ++ ";" ++ digest b.flatten

def b01 (b : Bool) : String := if b then "1" else "0"

def parseBuf (s : String) : Option (List Bytes) :=
  if s == "." then some [] else (s.splitOn ",").mapM unhex

def parseSend (s : String) : Option SendOut :=
  match s.toList with
  | ['b'] => some .blocking
  | ['p'] => some .brokenPipe
  | ['o'] => some .osError
  | ['w'] => some .sslWantWrite
  | 's' :: k => (String.ofList k).toNat?.map .sent
  | _ => none

def parseRecv (s : String) : Option RecvOut :=
  match s.toList with
  | ['e'] => some .eof
  | ['r'] => some .reset
  | ['t'] => some .timedOut
  | ['o'] => some .osError
  | ['b'] => some .blocking
  | ['w'] => some .sslWantRead
  | 'd' :: h => (unhex (String.ofList h)).map .data
  | _ => none

def parseOptBytes (s : String) : Option (Option Bytes) :=
  if s == "None" then some none else (unhex s).map some

def parseApp (s : String) : Option AppOut :=
  match s.splitOn "/" with
  | ["r"] => some .raised
  | ["a", u, c, cl] => do
    let u ← parseOptBytes u
    let c ← parseOptBytes c
    some (.ok u c (cl == "1"))
  | _ => none

def parseTick (s : String) : Option (Bool × Tick) :=
  match s.splitOn ":" with
  | [fl, cr, cs, ur, us, app] =>
    match fl.toList with
    | [m, a, b, c, d] => do
      let cr ← parseRecv cr
      let cs ← parseSend cs
      let ur ← parseRecv ur
      let us ← parseSend us
      let app ← parseApp app
      some (m == 'm', { cR := a == '1', cW := b == '1', uR := c == '1', uW := d == '1',
                        cRecv := cr, uRecv := ur, cSend := cs, uSend := us, app := app })
    | _ => none
  | _ => none

def parseKind : String → Option Kind
  | "tunnel" => some .tunnel | "http" => some .http | "local" => some .local | _ => none

def trStr : Option (Bytes × Nat) → String
  | none => "None"
  | some (off, acc) => s!"{digest off}:{acc}"

def evStr (s : St) : String :=
  let e := events s
  b01 e.cR ++ b01 e.cW ++ b01 e.uR ++ b01 e.uW

def stStr (s : St) : String :=
  s!"mf={b01 s.mustFlush} rt={b01 s.readsTeared} wt={b01 s.writesTeared} cs={trStr s.trC} us={trStr s.trU} cb={bufStr s.client.buffer} ub={bufStr s.upstream.buffer} ev={evStr s}"

def retStr : Ret → String
  | .cont => "c" | .teardown => "t" | .raised => "x"

/-- `R<elapsed>,<timeout>` : the reaper looks at the connection -/
def parseReap (s : String) : Option (Int × Int) :=
  match s.toList with
  | 'R' :: rest =>
    match (String.ofList rest).splitOn "," with
    | [a, b] => do
      let a ← a.toInt?
      let b ← b.toInt?
      some (a, b)
    | _ => none
  | _ => none

def parseItem (s : String) : Option ((Bool × Tick) ⊕ (Int × Int)) :=
  match parseReap s with
  | some r => some (.inr r)
  | none => (parseTick s).map .inl

def runObs (s : St) : List (Bool × Tick) → List String
  | [] => []
  | (m, t) :: ts =>
    match (if m then step s t else tick s t) with
    | (s1, .cont) => s!"ret=c {stStr s1}" :: runObs s1 ts
    | (s1, r) => [s!"ret={retStr r} {stStr s1}"]

def runObsEv (s : St) : List ((Bool × Tick) ⊕ (Int × Int)) → List String
  | [] => []
  | .inl (m, t) :: ts =>
    match (if m then step s t else tick s t) with
    | (s1, .cont) => s!"ret=c {stStr s1}" :: runObsEv s1 ts
    | (s1, r) => [s!"ret={retStr r} {stStr s1}"]
  | .inr (e, to) :: ts =>
    if isInactive s e to then ["reap ia=1 closed=1"]
    else "reap ia=0 closed=0" :: runObsEv s ts

def flushOps (maxSend : Nat) (c : Conn) : List String → List String
  | [] => []
  | op :: ops =>
    match op.toList with
    | 'q' :: h =>
      match unhex (String.ofList h) with
      | some b => let c1 := c.queue b; s!"q {bufStr c1.buffer}" :: flushOps maxSend c1 ops
      | none => ["bad-op"]
    | 'f' :: o =>
      match parseSend (String.ofList o) with
      | some o =>
        let r := c.flush maxSend o
        let ex := match r.exc with
          | none => "None" | some .brokenPipe => "brokenPipe" | some .osError => "osError"
          | some .sslWantWrite => "sslWantWrite"
        s!"f off={match r.offered with | none => "None" | some x => digest x} acc={r.accepted} exc={ex} hb={b01 r.conn.hasBuffer} {bufStr r.conn.buffer}"
          :: flushOps maxSend r.conn ops
      | none => ["bad-op"]
    | _ => ["bad-op"]

def parseSel (s : String) : Option SelEv :=
  match s.toList with
  | ['t'] => some .timeout
  | 'y' :: o => (parseSend (String.ofList o)).map .ready
  | _ => none

def feStr : Option FlushEnd → String
  | none => "None" | some .drained => "drained" | some .brokenPipe => "brokenPipe"
  | some .osError => "osError" | some .looping => "looping"

def drv (args : List String) : String :=
  match args with
  | "flush" :: maxSend :: buf :: ops =>
    match maxSend.toNat?, parseBuf buf with
    | some m, some b => " | ".intercalate (flushOps m { buffer := b } ops)
    | _, _ => "bad-op"
  | "run" :: kind :: maxSend :: mf :: rt :: cbuf :: ubuf :: ticks =>
    match parseKind kind, maxSend.toNat?, parseBuf cbuf, parseBuf ubuf, ticks.mapM parseItem with
    | some k, some m, some cb, some ub, some ts =>
      let s := st0 k m cb ub (mf == "1") (rt == "1")
      " | ".intercalate (s!"init {stStr s}" :: runObsEv s ts)
    | _, _, _, _, _ => "bad-op"
  | "shut" :: threaded :: maxSend :: cbuf :: sels =>
    match maxSend.toNat?, parseBuf cbuf, sels.mapM parseSel with
    | some m, some cb, some ss =>
      let r := shutdown (threaded == "1") m { buffer := cb } ss
      s!"end={feStr r.flushEnd} closed={b01 r.client.closed} plugin={b01 r.pluginClosed} sent={digest r.sent} cb={bufStr r.client.buffer}"
    | _, _, _ => "bad-op"
  | _ => "bad-op"

end Px.Relay
