import PxModel.Ws
import PxModel.Sha1
import PxProofs.WsLemmas
/-!
# C16 — WebSocket frames round-trip for every size and flag combination

Property theorems only; helper lemmas are in `PxProofs/WsLemmas.lean`.
The model (`PxModel/Ws.lean`, `PxModel/Sha1.lean`) is tied to
`proxy/http/websocket/frame.py` by the correspondence check `harness/c16.py`.
-/
namespace Px.Ws

/-- **C16 round trip.**  For every frame accepted by `build()` — all 2⁴ flag
combinations, all 16 opcodes, masked with any 4-byte key (given, or drawn by
`secrets.token_bytes`) or unmasked, every payload shorter than 2⁶⁴ bytes — and
every sequence of following bytes `tail`: `build` succeeds, and parsing
`build f ++ tail` yields the same fields and payload, consumes exactly the one
frame and returns `tail` untouched. -/
theorem C16_roundtrip (rnd : Bytes) (f : Frame) (tail : Bytes) (h : f.WF rnd) :
    ∃ raw, build rnd f = .ok raw ∧ parse (raw ++ tail) = .ok (f.norm rnd, tail) :=
  roundtrip_lemma rnd f tail h

/-- masking is an involution for every key and payload -/
theorem C16_mask_involutive (key data : Bytes) (i : Nat) :
    maskAux key i (maskAux key i data) = data := maskAux_inv key i data

/-- **C16 RFC 6455 agreement.**  `build` produces, byte for byte, the encoding
written independently from the RFC's frame diagram (`rfcEncode`). -/
theorem C16_rfc (rnd : Bytes) (f : Frame) (h : f.WF rnd) :
    build rnd f = .ok (rfcEncode f (f.mask.getD rnd)) :=
  build_eq_rfc_lemma rnd f h.1 h.2.1 h.2.2

/-- what `build` rejects: an opcode that does not fit the first header byte -/
theorem C16_reject_wide_opcode (rnd : Bytes) (f : Frame) (h : byte0 f > 255) :
    build rnd f = .error .structError := by
  unfold build; rw [if_pos h]

/-- the guard is satisfiable by non-trivial frames (non-vacuity) -/
example : (⟨true, false, true, false, 9, true, some [1, 2, 3, 4], [104, 105]⟩ : Frame).WF [] := by
  simp [Frame.WF]
example : (⟨false, true, false, true, 15, true, none, []⟩ : Frame).WF [9, 9, 9, 9] := by
  simp [Frame.WF]

end Px.Ws

namespace Px.Sha1

/-- **C16 accept token.**  The handshake accept token of the model is the RFC
formula `base64(SHA-1(key ++ GUID))`; the SHA-1 / base64 models are the
FIPS 180-4 / RFC 4648 algorithms (the RFC 6455 §1.3 example is reproduced by
kernel evaluation below, so the definitions are not vacuous), and
`hashlib` / `base64` are tied to them by the correspondence check. -/
theorem C16_accept (guid key : Bytes) : keyToAccept guid key = b64encode (sha1 (key ++ guid)) := rfl

theorem C16_accept_rfc_example :
    keyToAccept GUID (b "dGhlIHNhbXBsZSBub25jZQ==") = b "s3pPLMBiTxaQ9kYGzzhZRbK+xOo=" := by
  decide +kernel

end Px.Sha1
