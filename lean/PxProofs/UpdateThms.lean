import PxProofs.UpdateLemmas
/-!
# `update_body` followed by rebuild and reparse (C15)
-/
namespace Px.Codec

open Px.Parser Px.Build Px.UpdateBody
open Px.Url (Url)

theorem hdrGet_some_mem {h : Headers} {k : Bytes} {x : Bytes × Bytes} (hg : hdrGet h k = some x) :
    (k, x) ∈ h := by
  induction h with
  | nil => simp [hdrGet_nil] at hg
  | cons a t ih =>
    rw [hdrGet_cons] at hg
    by_cases hk : (a.1 == k) = true
    · simp only [hk, if_true, Option.some.injEq] at hg
      have : a.1 = k := by simpa using hk
      obtain ⟨a1, a2⟩ := a
      simp only at this hg
      subst this; subst hg; simp
    · simp only [hk, Bool.false_eq_true, if_false] at hg
      exact List.mem_cons_of_mem _ (ih hg)

theorem updHeaders_ne_nil (gz : Bytes → Bytes) (h : Headers) (body ct : Bytes) : updHeaders gz h body ct ≠ [] := by
  intro e
  have := updHeaders_ct gz h body ct
  rw [e, hdrGet_nil] at this; simp at this

theorem zero_lt_maxdigits : (0 : Nat) < 10 ^ intMaxStrDigits := Nat.pow_pos (by decide)

/-- the parser after `update_body` on a message that is not chunked -/
def updParser (gz : Bytes → Bytes) (p : Parser) (body ct : Bytes) : Parser :=
  { p with headers := some (updHeaders gz (p.headers.getD []) body ct),
           body := some (updBody gz (p.headers.getD []) body) }

/-- **update_body, request, not chunked**: `Content-Length` is set to the length of the stored body
    (compressed with `gz` iff `content-encoding: gzip`), `Content-Type` is set, any other
    `content-encoding` is dropped; the rebuilt message reads back with exactly that body and header map -/
theorem update_body_req_plain (cfg : Cfg) (gz : Bytes → Bytes) (bufSize : Nat) (p : Parser) (meth ver body ct : Bytes)
    (g : ReqGuard p meth ver) (hch : p.isChunked = false)
    (hte : ∀ a ∈ p.headers.getD [], a.1 ≠ kTE) (hct : wfValue ct = true)
    (hlen : (updBody gz (p.headers.getD []) body).length < 10 ^ intMaxStrDigits) :
    ∃ raw r, updateBody gz bufSize p body ct = .ok (updParser gz p body ct) ∧
      Px.Build.build bufSize Px.Gen.defaultDisableHeaders (updParser gz p body ct) none none = .ok raw ∧
      parse cfg (init .request) raw = .ok r ∧ r.state = .complete ∧
      r.method = some meth ∧ r.version = some ver ∧ r.path = some (pathOf p) ∧
      r.headers = some (updHeaders gz (p.headers.getD []) body ct) ∧
      r.body = (if updBody gz (p.headers.getD []) body = [] then none
                else some (updBody gz (p.headers.getD []) body)) ∧
      r.buffer = none ∧ r.isChunked = false := by
  obtain ⟨hty, hm, hv, hmt, hvt, hpt, hpo, hi⟩ := g
  have hupd := updateBody_plain gz bufSize p body ct hch
  have hinv := hdrInvB_upd gz (p.headers.getD []) body ct hi hct
  have g' : ReqGuard (updParser gz p body ct) meth ver := ⟨hty, hm, hv, hmt, hvt, hpt, hpo, hinv⟩
  have hpairs : hdrPairs (updParser gz p body ct) = namesOf (updHeaders gz (p.headers.getD []) body ct) := rfl
  have hnoTE := pairs_noTE_of_keys hinv (upd_noTE gz (p.headers.getD []) body ct hte)
  have hcl := upd_cl gz (p.headers.getD []) body ct hi hct
  have hhd : hdrsOf (namesOf (updHeaders gz (p.headers.getD []) body ct)) =
      some (updHeaders gz (p.headers.getD []) body ct) :=
    hdrsOf_namesOf _ hinv (updHeaders_ne_nil _ _ _ _)
  by_cases hb : updBody gz (p.headers.getD []) body = []
  · have hbt : bodyTruthy (updParser gz p body ct).body = false := by
      simp [updParser, bodyTruthy, hb]
    obtain ⟨raw, r, h1, h2, h3⟩ := build_parse_req_nobody cfg bufSize (updParser gz p body ct) meth ver g' hch hbt
      (fun e he => isTEChunked_false_of (hnoTE e (hpairs ▸ he)))
      (fun e he hc => by
        rw [hcl e (hpairs ▸ he) hc, hb]
        exact pyInt10_natToDec 0 zero_lt_maxdigits)
    refine ⟨raw, r, hupd, h1, h2, h3.state_eq, h3.method_eq, h3.version_eq, h3.path_eq, ?_, ?_, h3.buffer_eq,
      h3.chunked_eq⟩
    · rw [h3.headers_eq, hpairs, hhd]
    · rw [h3.body_eq, if_pos hb]
  · have hbt : bodyTruthy (updParser gz p body ct).body = true := by
      simp [updParser, bodyTruthy, hb]
    have hbd : (updParser gz p body ct).body.getD [] = updBody gz (p.headers.getD []) body := rfl
    obtain ⟨raw, r, h1, h2, h3⟩ := build_parse_req_cl cfg bufSize (updParser gz p body ct) meth ver g' hch hbt
      (fun e he => hnoTE e (hpairs ▸ he))
      (fun e he hc => by
        rw [hcl e (hpairs ▸ he) hc, hbd]
        exact pyInt10_natToDec _ hlen)
      (by rw [hbd]; exact hlen)
    refine ⟨raw, r, hupd, h1, h2, h3.state_eq, h3.method_eq, h3.version_eq, h3.path_eq, ?_, ?_, h3.buffer_eq,
      h3.chunked_eq⟩
    · rw [h3.headers_eq, hpairs, hbd]
      have hmem : (nCL, natToDec (updBody gz (p.headers.getD []) body).length) ∈
          namesOf (updHeaders gz (p.headers.getD []) body ct) := by
        have := hdrGet_some_mem (updHeaders_cl_get gz (p.headers.getD []) body ct)
        simp only [namesOf, List.mem_map]
        exact ⟨_, this, rfl⟩
      have hnd : ((namesOf (updHeaders gz (p.headers.getD []) body ct)).map (·.1)).Nodup := by
        have := names_nodup_of_lower (hdrInvB_spec hinv).1
        simp only [namesOf, List.map_map]; exact this
      rw [dSet_of_mem_same _ _ _ hmem hnd, hhd]
    · rw [h3.body_eq, if_neg hb]; rfl

/-- **update_body, response, not chunked** -/
theorem update_body_resp_plain (cfg : Cfg) (gz : Bytes → Bytes) (bufSize : Nat) (p : Parser) (ver code body ct : Bytes)
    (n : Int) (g : ResGuard p ver code n) (hch : p.isChunked = false)
    (hte : ∀ a ∈ p.headers.getD [], a.1 ≠ kTE) (hct : wfValue ct = true)
    (hlen : (updBody gz (p.headers.getD []) body).length < 10 ^ intMaxStrDigits) :
    ∃ raw r, updateBody gz bufSize p body ct = .ok (updParser gz p body ct) ∧
      buildResponseOf bufSize (updParser gz p body ct) = .ok raw ∧
      parse cfg (init .response) raw = .ok r ∧ r.state = .complete ∧
      r.version = some ver ∧ r.code = some code ∧
      r.headers = some (updHeaders gz (p.headers.getD []) body ct) ∧
      r.body = (if updBody gz (p.headers.getD []) body = [] then none
                else some (updBody gz (p.headers.getD []) body)) ∧
      r.buffer = none ∧ r.isChunked = false := by
  obtain ⟨hty, hv, hc, hvt, hcne, hci, hcc, hr, hi⟩ := g
  have hupd := updateBody_plain gz bufSize p body ct hch
  have hinv := hdrInvB_upd gz (p.headers.getD []) body ct hi hct
  have g' : ResGuard (updParser gz p body ct) ver code n := ⟨hty, hv, hc, hvt, hcne, hci, hcc, hr, hinv⟩
  have hpairs : hdrPairs (updParser gz p body ct) = namesOf (updHeaders gz (p.headers.getD []) body ct) := rfl
  have hnoTE := pairs_noTE_of_keys hinv (upd_noTE gz (p.headers.getD []) body ct hte)
  have hcl := upd_cl gz (p.headers.getD []) body ct hi hct
  have hhd : hdrsOf (namesOf (updHeaders gz (p.headers.getD []) body ct)) =
      some (updHeaders gz (p.headers.getD []) body ct) :=
    hdrsOf_namesOf _ hinv (updHeaders_ne_nil _ _ _ _)
  have hmem : (nCL, natToDec (updBody gz (p.headers.getD []) body).length) ∈
      namesOf (updHeaders gz (p.headers.getD []) body ct) := by
    have := hdrGet_some_mem (updHeaders_cl_get gz (p.headers.getD []) body ct)
    simp only [namesOf, List.mem_map]
    exact ⟨_, this, rfl⟩
  have hnd : ((namesOf (updHeaders gz (p.headers.getD []) body ct)).map (·.1)).Nodup := by
    have := names_nodup_of_lower (hdrInvB_spec hinv).1
    simp only [namesOf, List.map_map]; exact this
  by_cases hb : updBody gz (p.headers.getD []) body = []
  · have hbt : bodyTruthy (updParser gz p body ct).body = false := by
      simp [updParser, bodyTruthy, hb]
    obtain ⟨raw, r, h1, h2, h3⟩ := build_parse_resp_nobody cfg bufSize (updParser gz p body ct) ver code n g' hch hbt
      (fun e he => hnoTE e (hpairs ▸ he))
      (fun e he hc' => by
        rw [hcl e (hpairs ▸ he) hc', hb]
        exact pyInt10_natToDec 0 zero_lt_maxdigits)
    refine ⟨raw, r, hupd, h1, h2, h3.state_eq, h3.version_eq, h3.code_eq, ?_, ?_, h3.buffer_eq, h3.chunked_eq⟩
    · rw [h3.headers_eq, hpairs]
      have h0 : natToDec 0 = [48] := by rw [natToDec_eq, decDigits]; rfl
      rw [hb] at hmem
      simp only [List.length_nil] at hmem
      rw [h0] at hmem
      rw [dSet_of_mem_same _ _ _ hmem hnd, hhd]
    · rw [h3.body_eq, if_pos hb]
  · have hbt : bodyTruthy (updParser gz p body ct).body = true := by
      simp [updParser, bodyTruthy, hb]
    have hbd : (updParser gz p body ct).body.getD [] = updBody gz (p.headers.getD []) body := rfl
    obtain ⟨raw, r, h1, h2, h3⟩ := build_parse_resp_cl cfg bufSize (updParser gz p body ct) ver code n g' hch hbt
      (fun e he => hnoTE e (hpairs ▸ he))
      (fun e he hc' => by
        rw [hcl e (hpairs ▸ he) hc', hbd]
        exact pyInt10_natToDec _ hlen)
      (by rw [hbd]; exact hlen)
    refine ⟨raw, r, hupd, h1, h2, h3.state_eq, h3.version_eq, h3.code_eq, ?_, ?_, h3.buffer_eq, h3.chunked_eq⟩
    · rw [h3.headers_eq, hpairs, hbd, dSet_of_mem_same _ _ _ hmem hnd, hhd]
    · rw [h3.body_eq, if_neg hb]; rfl

end Px.Codec
